/- C07 — exchange of the two shells: the generic contractions are symmetric over any commutative semiring.
   Definitions: Ecpint/Model/Contraction.lean (the same functions the pipeline model runs at Float). -/
import Ecpint.Model.Contraction
import Ecpint.Props.C07Gen
import Ecpint.Lemmas.Contraction
import Mathlib.Algebra.BigOperators.Group.List.Basic
import Mathlib.Algebra.Ring.Defs
import Mathlib.Algebra.Ring.Nat
namespace Ecpint.C07
open Ecpint.Contraction Ecpint.ContractionLemmas

variable {K : Type} [CommSemiring K]

/-- a radial table with its two angular indices exchanged -/
def radT (r : Nat → Nat → Nat → K) : Nat → Nat → Nat → K := fun N l1 l2 => r N l2 l1

/-- explicit-sum form of one entry of the rolled-up contraction (no accumulator, no arrays) -/
def rolledUpSum (omega : Nat → Nat → Nat → Nat → Nat → Nat → Nat → K) (keep : K → Bool) (prefac : K) (lam : Nat)
    (radials : Nat → Nat → Nat → K) (CAna CBnb : Nat → Nat → Nat → K) (SA SB : Array (Array K))
    (ca cb : Nat × Nat × Nat) (mi : Nat) : K :=
  ((subIdx ca).map fun a => ((subIdx cb).map fun b =>
    let C := CAna a.1 a.2.1 a.2.2 * CBnb b.1 b.2.1 b.2.2
    if keep C then
      ((List.range (lam + tsum a + 1)).map fun lam1 =>
        ((parityRange (lam + tsum b) (lam1 + (tsum a + tsum b))).map fun lam2 =>
          prefac * C * radials (tsum a + tsum b) lam1 lam2 * wContr omega lam SA a lam1 mi * wContr omega lam SB b lam2 mi).sum).sum
    else 0).sum).sum

/-- size and entries of the accumulator/array form in one statement -/
theorem rolledUpBlock_spec (omega : Nat → Nat → Nat → Nat → Nat → Nat → Nat → K) (keep : K → Bool) (prefac : K) (lam : Nat)
    (radials : Nat → Nat → Nat → K) (CAna CBnb : Nat → Nat → Nat → K) (SA SB : Array (Array K))
    (ca cb : Nat × Nat × Nat) :
    (rolledUpBlock omega keep prefac lam radials CAna CBnb SA SB ca cb).size = 2 * lam + 1 ∧
    ∀ mi, mi < 2 * lam + 1 → (rolledUpBlock omega keep prefac lam radials CAna CBnb SA SB ca cb).getD mi 0
      = rolledUpSum omega keep prefac lam radials CAna CBnb SA SB ca cb mi := by
  unfold rolledUpBlock rolledUpSum
  dsimp only
  apply AddsA.foldl_replicate
  intro a _
  refine AddsA.foldl _ _ _ (fun b _ => ?_)
  refine AddsA.ite _ ?_
  refine AddsA.foldl _ _ _ (fun lam1 h1 => ?_)
  refine AddsA.foldl _ _ _ (fun lam2 h2 => ?_)
  refine AddsA.mapIdx' _ _ _ (fun mi hmi => ?_)
  have h1' : lam1 < lam + tsum a + 1 := List.mem_range.mp h1
  have h2' : lam2 < lam + tsum b + 1 := Nat.lt_succ_of_le (mem_parityRange.mp h2).1
  rw [get2_table _ _ (fun lam1 mi => wContr omega lam SA a lam1 mi) lam1 mi h1' hmi,
    get2_table _ _ (fun lam2 mi => wContr omega lam SB b lam2 mi) lam2 mi h2' hmi]

/-- the explicit sum is symmetric under exchange of the two shells' data -/
theorem rolledUpSum_swap (omega : Nat → Nat → Nat → Nat → Nat → Nat → Nat → K) (keep : K → Bool) (prefac : K) (lam : Nat)
    (radials : Nat → Nat → Nat → K) (CAna CBnb : Nat → Nat → Nat → K) (SA SB : Array (Array K))
    (ca cb : Nat × Nat × Nat) (mi : Nat) :
    rolledUpSum omega keep prefac lam (radT radials) CBnb CAna SB SA cb ca mi
      = rolledUpSum omega keep prefac lam radials CAna CBnb SA SB ca cb mi := by
  unfold rolledUpSum
  dsimp only
  rw [sum_map_comm]
  refine sum_map_congr _ _ _ (fun a _ => sum_map_congr _ _ _ (fun b _ => ?_))
  rw [mul_comm (CBnb b.1 b.2.1 b.2.2) (CAna a.1 a.2.1 a.2.2), Nat.add_comm (tsum b) (tsum a)]
  split
  · rw [parity_sum_swap]
    refine sum_map_congr _ _ _ (fun l1 _ => sum_map_congr _ _ _ (fun l2 _ => ?_))
    simp only [radT]
    rw [mul_right_comm]
  · rfl

/-- the accumulator/array form the code runs equals the explicit sum, entry by entry -/
theorem rolledUpBlock_getD (omega : Nat → Nat → Nat → Nat → Nat → Nat → Nat → K) (keep : K → Bool) (prefac : K) (lam : Nat)
    (radials : Nat → Nat → Nat → K) (CAna CBnb : Nat → Nat → Nat → K) (SA SB : Array (Array K))
    (ca cb : Nat × Nat × Nat) (mi : Nat) (hmi : mi < 2 * lam + 1) :
    (rolledUpBlock omega keep prefac lam radials CAna CBnb SA SB ca cb).getD mi 0
      = rolledUpSum omega keep prefac lam radials CAna CBnb SA SB ca cb mi :=
  (rolledUpBlock_spec omega keep prefac lam radials CAna CBnb SA SB ca cb).2 mi hmi

theorem rolledUpBlock_size (omega : Nat → Nat → Nat → Nat → Nat → Nat → Nat → K) (keep : K → Bool) (prefac : K) (lam : Nat)
    (radials : Nat → Nat → Nat → K) (CAna CBnb : Nat → Nat → Nat → K) (SA SB : Array (Array K))
    (ca cb : Nat × Nat × Nat) :
    (rolledUpBlock omega keep prefac lam radials CAna CBnb SA SB ca cb).size = 2 * lam + 1 :=
  (rolledUpBlock_spec omega keep prefac lam radials CAna CBnb SA SB ca cb).1

/-- C07, semi-local part, general position: calling the contraction with the two shells' data exchanged and the
radial table transposed gives the same numbers (the caller then stores them transposed) -/
theorem rolledUpBlock_swap (omega : Nat → Nat → Nat → Nat → Nat → Nat → Nat → K) (keep : K → Bool) (prefac : K) (lam : Nat)
    (radials : Nat → Nat → Nat → K) (CAna CBnb : Nat → Nat → Nat → K) (SA SB : Array (Array K))
    (ca cb : Nat × Nat × Nat) :
    rolledUpBlock omega keep prefac lam (radT radials) CBnb CAna SB SA cb ca
      = rolledUpBlock omega keep prefac lam radials CAna CBnb SA SB ca cb := by
  apply ext_getD
  · rw [rolledUpBlock_size, rolledUpBlock_size]
  · intro mi hmi
    rw [rolledUpBlock_size] at hmi
    rw [rolledUpBlock_getD _ _ _ _ _ _ _ _ _ _ _ _ hmi, rolledUpBlock_getD _ _ _ _ _ _ _ _ _ _ _ _ hmi, rolledUpSum_swap]

/-- the contribution of one binomial shift (k, l, m) with coefficient `C` to the type-1 element -/
def type1Term (W : Nat → Nat → Nat → Nat → Nat → K) (keep : K → Bool) (radials : Nat → Nat → Nat → K)
    (k l m : Nat) (C : K) : K :=
  if keep C then
    ((parityRange (k + l + m) (k + l + m)).map fun lam =>
      ((parityRange lam (k + l + m + m)).map fun mu =>
        C * W k l m lam (if l % 2 = 1 then lam - mu else lam + mu)
          * radials (k + l + m) lam (if l % 2 = 1 then lam - mu else lam + mu)).sum).sum
  else 0

/-- explicit-sum form of the type-1 element -/
def type1Sum (W : Nat → Nat → Nat → Nat → Nat → K) (keep : K → Bool) (radials : Nat → Nat → Nat → K)
    (CAna CBnb : Nat → Nat → Nat → K) (ca cb : Nat × Nat × Nat) : K :=
  ((List.range (ca.1 + 1)).map fun k1 => ((List.range (cb.1 + 1)).map fun k2 =>
    ((List.range (ca.2.1 + 1)).map fun l1 => ((List.range (cb.2.1 + 1)).map fun l2 =>
      ((List.range (ca.2.2 + 1)).map fun m1 => ((List.range (cb.2.2 + 1)).map fun m2 =>
        type1Term W keep radials (k1 + k2) (l1 + l2) (m1 + m2) (CAna k1 l1 m1 * CBnb k2 l2 m2)).sum).sum).sum).sum).sum).sum

theorem type1Entry_eq_sum (W : Nat → Nat → Nat → Nat → Nat → K) (keep : K → Bool) (radials : Nat → Nat → Nat → K)
    (CAna CBnb : Nat → Nat → Nat → K) (ca cb : Nat × Nat × Nat) :
    type1Entry W keep radials CAna CBnb ca cb = type1Sum W keep radials CAna CBnb ca cb := by
  unfold type1Entry type1Sum type1Term
  dsimp only
  refine (AddsS.foldl_zero _ _ _ (fun k1 _ => ?_))
  refine AddsS.foldl _ _ _ (fun k2 _ => ?_)
  refine AddsS.foldl _ _ _ (fun l1 _ => ?_)
  refine AddsS.foldl _ _ _ (fun l2 _ => ?_)
  refine AddsS.foldl _ _ _ (fun m1 _ => ?_)
  refine AddsS.foldl _ _ _ (fun m2 _ => ?_)
  refine AddsS.ite _ ?_
  refine AddsS.foldl _ _ _ (fun lam _ => ?_)
  refine AddsS.foldl _ _ _ (fun mu _ => ?_)
  exact AddsS.add _

theorem type1Sum_swap (W : Nat → Nat → Nat → Nat → Nat → K) (keep : K → Bool) (radials : Nat → Nat → Nat → K)
    (CAna CBnb : Nat → Nat → Nat → K) (ca cb : Nat × Nat × Nat) :
    type1Sum W keep radials CBnb CAna cb ca = type1Sum W keep radials CAna CBnb ca cb := by
  unfold type1Sum
  rw [sum_map_comm]
  refine sum_map_congr _ _ _ (fun k1 _ => sum_map_congr _ _ _ (fun k2 _ => ?_))
  rw [sum_map_comm]
  refine sum_map_congr _ _ _ (fun l1 _ => sum_map_congr _ _ _ (fun l2 _ => ?_))
  rw [sum_map_comm]
  refine sum_map_congr _ _ _ (fun m1 _ => sum_map_congr _ _ _ (fun m2 _ => ?_))
  rw [Nat.add_comm k2 k1, Nat.add_comm l2 l1, Nat.add_comm m2 m1, mul_comm]

/-- C07, local part: the type-1 element is symmetric under exchange of the two shells' data -/
theorem type1Entry_swap (W : Nat → Nat → Nat → Nat → Nat → K) (keep : K → Bool) (radials : Nat → Nat → Nat → K)
    (CAna CBnb : Nat → Nat → Nat → K) (ca cb : Nat × Nat × Nat) :
    type1Entry W keep radials CBnb CAna cb ca = type1Entry W keep radials CAna CBnb ca cb := by
  rw [type1Entry_eq_sum, type1Entry_eq_sum, type1Sum_swap]

/-- the transposed copy used by the `LA > LB` and B-on-centre branches (`out(na, nb) = t(nb, na)`) -/
def transposeT {γ : Type} [Inhabited γ] (nA nB : Nat) (t : Array γ) : Array γ :=
  (Array.range (nA * nB)).map fun i => t[(i % nB) * nA + (i / nB)]!

/-- the index arithmetic of the double transposition -/
theorem transpose_index {nA nB i : Nat} (hi : i < nA * nB) :
    (i % nB) * nA + i / nB < nB * nA ∧ ((i % nB) * nA + i / nB) % nA = i / nB ∧ ((i % nB) * nA + i / nB) / nA = i % nB := by
  have hB : 0 < nB := by
    rcases Nat.eq_zero_or_pos nB with h | h
    · subst h; simp at hi
    · exact h
  have hA : 0 < nA := by
    rcases Nat.eq_zero_or_pos nA with h | h
    · subst h; simp at hi
    · exact h
  have hq : i / nB < nA := by
    rw [Nat.div_lt_iff_lt_mul hB]; exact hi
  have hr : i % nB < nB := Nat.mod_lt _ hB
  refine ⟨?_, ?_, ?_⟩
  · calc (i % nB) * nA + i / nB < (i % nB) * nA + nA := by omega
      _ = (i % nB + 1) * nA := by rw [Nat.add_mul, Nat.one_mul]
      _ ≤ nB * nA := Nat.mul_le_mul_right _ hr
  · rw [Nat.mul_comm, Nat.mul_add_mod, Nat.mod_eq_of_lt hq]
  · rw [Nat.mul_comm, Nat.mul_add_div hA, Nat.div_eq_of_lt hq, Nat.add_zero]

/-- transposing twice is the identity on a block of the right size -/
theorem transposeT_involutive {γ : Type} [Inhabited γ] (nA nB : Nat) (t : Array γ) (h : t.size = nA * nB) :
    transposeT nA nB (transposeT nB nA t) = t := by
  apply Array.ext
  · simp [transposeT, h]
  · intro i h1 h2
    have hi : i < nA * nB := by rw [← h]; exact h2
    obtain ⟨hj, hm, hd⟩ := transpose_index hi
    have hB : 0 < nB := by
      rcases Nat.eq_zero_or_pos nB with h | h
      · subst h; simp at hi
      · exact h
    have hsz : (transposeT nB nA t).size = nB * nA := by simp [transposeT]
    unfold transposeT at *
    simp only [Array.getElem_map, Array.getElem_range]
    rw [getElem!_pos _ _ (by rw [hsz]; exact hj)]
    simp only [Array.getElem_map, Array.getElem_range]
    rw [hm, hd, Nat.mul_comm, Nat.div_add_mod]
    exact getElem!_pos t i h2

/-! ### non-vacuity: a concrete instance over ℕ (lam = 1, ca = (1,0,1), cb = (0,1,0)) -/
namespace Example

def om : Nat → Nat → Nat → Nat → Nat → Nat → Nat → Nat :=
  fun ax ay az lam mi lam1 m1 => ax + 2 * ay + az + lam + mi + lam1 * m1 + 1
def kp : Nat → Bool := fun C => decide (1 < C)
def rad : Nat → Nat → Nat → Nat := fun N l1 l2 => N + 2 * l1 + l2 + 1
def cA : Nat → Nat → Nat → Nat := fun k l m => k + l + 2 * m + 1
def cB : Nat → Nat → Nat → Nat := fun k l m => k + 3 * l + m + 1
def sA : Array (Array Nat) := #[#[1], #[1, 2, 3], #[2, 0, 1, 1, 3], #[1, 1, 0, 2, 0, 1, 1]]
def sB : Array (Array Nat) := #[#[2], #[0, 1, 1], #[1, 0, 3, 0, 1]]

/-- the explicit sum evaluates (in the kernel) to a specific non-zero number -/
example : rolledUpSum om kp 2 1 rad cA cB sA sB (1, 0, 1) (0, 1, 0) 1 = 4032452 := by decide

/-- hence so does the entry of the array the code computes -/
example : (rolledUpBlock om kp 2 1 rad cA cB sA sB (1, 0, 1) (0, 1, 0)).getD 1 0 = 4032452 := by
  rw [rolledUpBlock_getD om kp 2 1 rad cA cB sA sB (1, 0, 1) (0, 1, 0) 1 (by decide)]
  decide

/-- and the entry of the array computed with the two shells exchanged -/
example : (rolledUpBlock om kp 2 1 (radT rad) cB cA sB sA (0, 1, 0) (1, 0, 1)).getD 1 0 = 4032452 := by
  rw [rolledUpBlock_swap, rolledUpBlock_getD om kp 2 1 rad cA cB sA sB (1, 0, 1) (0, 1, 0) 1 (by decide)]
  decide

/-- the transposition of the radial table is needed: without it the exchanged sum is a different number -/
example : rolledUpSum om kp 2 1 rad cB cA sB sA (0, 1, 0) (1, 0, 1) 1 = 3793320 := by decide

/-- the type-1 element on the same data -/
example : type1Sum (fun k l m lam mu => k + 2 * l + 3 * m + lam * mu + 1) kp rad cA cB (1, 0, 1) (0, 1, 0) = 8259 := by decide

end Example

end Ecpint.C07
