/- C06 — screening is term dropping.  Model: Model/ShellPair.lean, Model/RadialGen.lean (bit for bit with the code,
   with the hook `verif::no_screening` corresponding to the switches radialScreen / pairScreen / prescreen = false). -/
import Ecpint.Model.ShellPair
import Ecpint.Gen.Constants
import Mathlib.Algebra.Order.BigOperators.Group.List
import Mathlib.Data.Real.Basic
import Mathlib.Tactic.NormNum
import Mathlib.Tactic.Linarith
namespace Ecpint.C06
open Ecpint Ecpint.ShellPair Ecpint.Contraction

variable {α : Type} [Flt α]

/-- shape of `RadialGen.primitive` with the generated closed-form case kept abstract -/
theorem primitive_shape (prim : Quad.Grid α) (T : Bessel.Table α) (small tol minExp rootPi : α)
    (nbase : Nat) (un : Int) (ua a b A B d1 d2 : α) (N l1 l2 : Nat) (erfv : α) :
    ∃ rc : Option α,
      RadialGen.primitive prim T small tol minExp rootPi nbase un ua a b A B d1 d2 N l1 l2 erfv =
        if minExp < a * b then
          match rc with
          | some r => (r, .closed, 0)
          | none =>
            if tol < RadialGen.estimateType2 T (((N : Int) + un + 2).toNat) l1 l2 ua a b A B erfv then
              ((RadialGen.integrateSmall prim T small tol (((N : Int) + un + 2).toNat) l1 l2 ua a b A B).1, .quad,
               (RadialGen.integrateSmall prim T small tol (((N : Int) + un + 2).toNat) l1 l2 ua a b A B).2.2.1)
            else (0, .screened, 0)
        else
          if tol < RadialGen.estimateType2 T (((N : Int) + un + 2).toNat) l1 l2 ua a b A B erfv then
            ((RadialGen.integrateSmall prim T small tol (((N : Int) + un + 2).toNat) l1 l2 ua a b A B).1, .quad,
             (RadialGen.integrateSmall prim T small tol (((N : Int) + un + 2).toNat) l1 l2 ua a b A B).2.2.1)
          else (0, .screened, 0) :=
  ⟨_, rfl⟩

/-- per-primitive radial screen: the primitive routine either takes a closed form (never screened), or runs the
quadrature when the estimate exceeds the tolerance, or contributes exactly 0 — nothing else -/
theorem primitive_paths (prim : Quad.Grid α) (T : Bessel.Table α) (small tol minExp rootPi : α)
    (nbase : Nat) (un : Int) (ua a b A B d1 d2 : α) (N l1 l2 : Nat) (erfv : α) :
    let r := RadialGen.primitive prim T small tol minExp rootPi nbase un ua a b A B d1 d2 N l1 l2 erfv
    let k : Nat := ((N : Int) + un + 2).toNat
    (r.2.1 = .screened → r.1 = 0 ∧ ¬ tol < RadialGen.estimateType2 T k l1 l2 ua a b A B erfv) ∧
    (r.2.1 = .quad → tol < RadialGen.estimateType2 T k l1 l2 ua a b A B erfv ∧
        r.1 = (RadialGen.integrateSmall prim T small tol k l1 l2 ua a b A B).1) := by
  intro r k
  obtain ⟨rc, hrc⟩ := primitive_shape prim T small tol minExp rootPi nbase un ua a b A B d1 d2 N l1 l2 erfv
  simp only [r, k, hrc]
  generalize RadialGen.integrateSmall prim T small tol _ l1 l2 ua a b A B = I
  generalize RadialGen.estimateType2 T _ l1 l2 ua a b A B erfv = est
  by_cases hm : minExp < a * b
  · cases rc with
    | some v => simp [hm]
    | none =>
      by_cases ht : tol < est <;> simp [hm, ht]
  · by_cases ht : tol < est <;> simp [hm, ht]

/-- two settings that agree on every switch except possibly `pairScreen` -/
def AgreeOffPair (s s' : Switches) : Prop :=
  s.tailCut = s'.tailCut ∧ s.closedForms = s'.closedForms ∧ s.radialScreen = s'.radialScreen ∧
  s.prescreen = s'.prescreen ∧ s.finest = s'.finest

theorem radIntegrate_sw (E : Engine α) (s s' : Switches) (maxL : Nat) (g : Quad.Grid α) (vals : Nat → Nat → α)
    (start stop offset skip : Nat) :
    radIntegrate E s maxL g vals start stop offset skip = radIntegrate E s' maxL g vals start stop offset skip := rfl

theorem radType2_sw (E : Engine α) (s s' : Switches) (pwf : Nat → α → α) (maxPow : Nat) (lam l1end0 l2end0 N : Nat)
    (U : Ecp α) (sA sB : Shell α) (d : PairData α) (par : Params α) :
    radType2 E s pwf maxPow lam l1end0 l2end0 N U sA sB d par = radType2 E s' pwf maxPow lam l1end0 l2end0 N U sA sB d par := rfl

theorem radType1_sw (E : Engine α) (s s' : Switches) (hp : s.prescreen = s'.prescreen) (pwf : Nat → α → α) (maxPow : Nat) (maxL N offset : Nat)
    (U : Ecp α) (sA sB : Shell α) (d : PairData α) (par : Params α) :
    radType1 E s pwf maxPow maxL N offset U sA sB d par = radType1 E s' pwf maxPow maxL N offset U sA sB d par := by
  unfold radType1
  simp only [hp, radIntegrate_sw E s s']

theorem type1_sw (E : Engine α) (s s' : Switches) (hp : s.prescreen = s'.prescreen) (pwf : Nat → α → α) (maxPow : Nat)
    (U : Ecp α) (sA sB : Shell α) (d : PairData α) (CA CB : Nat → Nat → Nat → Nat → α) (par : Params α) :
    type1 E s pwf maxPow U sA sB d CA CB par = type1 E s' pwf maxPow U sA sB d CA CB par := by
  unfold type1
  simp only [radType1_sw E s s' hp]

theorem primitiveSw_sw (E : Engine α) (s s' : Switches) (h : AgreeOffPair s s') (nbase : Nat) (un : Int)
    (ua a b A B d1 d2 : α) (N l1 l2 : Nat) (erfv : α) :
    radialTriples.primitiveSw E s nbase un ua a b A B d1 d2 N l1 l2 erfv
      = radialTriples.primitiveSw E s' nbase un ua a b A B d1 d2 N l1 l2 erfv := by
  obtain ⟨h1, h2, h3, h4, h5⟩ := h
  unfold radialTriples.primitiveSw
  simp only [h1, h2, h3, h5]

theorem radialTriples_sw (E : Engine α) (s s' : Switches) (h : AgreeOffPair s s') (triples : List (Nat × Nat × Nat)) (nbase lam : Nat)
    (U : Ecp α) (sA sB : Shell α) (A B : α) :
    radialTriples E s triples nbase lam U sA sB A B = radialTriples E s' triples nbase lam U sA sB A B := by
  unfold radialTriples
  simp only [primitiveSw_sw E s s' h]

theorem qClass_sw (E : Engine α) (s s' : Switches) (h : AgreeOffPair s s') (cls : Gen.QClass) (terms : Option (Array (UTerm α)))
    (U : Ecp α) (sA sB : Shell α) (CA CB : Nat → Nat → Nat → Nat → α) (SA SB : Array (Array α)) (Am Bm : α) :
    qClass E s cls terms U sA sB CA CB SA SB Am Bm = qClass E s' cls terms U sA sB CA CB SA SB Am Bm := by
  unfold qClass
  simp only [radialTriples_sw E s s' h]

theorem type2_sw (E : Engine α) (s s' : Switches) (h : AgreeOffPair s s') (pwf : Nat → α → α) (maxPow : Nat)
    (classes : Nat → Nat → Nat → Option (Gen.QClass × Option (Array (UTerm α))))
    (lam : Nat) (U : Ecp α) (sA sB : Shell α) (d : PairData α) (CA CB : Nat → Nat → Nat → Nat → α) (par : Params α) :
    type2 E s pwf maxPow classes lam U sA sB d CA CB par = type2 E s' pwf maxPow classes lam U sA sB d CA CB par := by
  unfold type2
  simp only [radType2_sw E s s', qClass_sw E s s' h]

/-- shell-pair screen: when no per-l estimate is at or below the tolerance (NaN estimates count as not below), switching the pair screen off changes nothing -/
theorem pairScreen_inactive (E : Engine α) (sw : Switches) (pwf : Nat → α → α) (pw : α → Nat → α) (maxPow : Nat) (euler sinh1 : α)
    (classes : Nat → Nat → Nat → Option (Gen.QClass × Option (Array (UTerm α))))
    (d : PairData α) (U : Ecp α) (sA sB : Shell α)
    (hall : ∀ l : Nat, ¬ (estimateType2 E pwf U sA sB d euler sinh1)[l]! ≤ E.pairTol) :
    computeFromData E { sw with pairScreen := true } pwf pw maxPow euler sinh1 classes d U sA sB
      = computeFromData E { sw with pairScreen := false } pwf pw maxPow euler sinh1 classes d U sA sB := by
  have hag : AgreeOffPair { sw with pairScreen := true } { sw with pairScreen := false } := ⟨rfl, rfl, rfl, rfl, rfl⟩
  unfold computeFromData
  simp only [hall, type1_sw E _ _ hag.2.2.2.1, type2_sw E _ _ hag, Bool.not_true, Bool.not_false, Bool.false_or,
    Bool.true_or, decide_true, decide_false]

/-- the radial screen switched off is the only difference between the screened and the unscreened primitive: whenever the
estimate exceeds the tolerance (or a closed form applies) both give the same value -/
theorem primitiveSw_radialScreen_inactive (E : Engine α) (nbase : Nat) (un : Int) (ua a b A B d1 d2 : α) (N l1 l2 : Nat) (erfv : α)
    (h : E.tol < RadialGen.estimateType2 E.bessel (((N : Int) + un + 2).toNat) l1 l2 ua a b A B erfv) :
    radialTriples.primitiveSw E { radialScreen := false } nbase un ua a b A B d1 d2 N l1 l2 erfv
      = radialTriples.primitiveSw E { } nbase un ua a b A B d1 d2 N l1 l2 erfv := by
  obtain ⟨rc, hrc⟩ := primitive_shape E.prim E.bessel E.smallZ E.tol E.minExp E.rootPi nbase un ua a b A B d1 d2 N l1 l2 erfv
  simp only [radialTriples.primitiveSw, hrc, h]
  generalize RadialGen.integrateSmall E.prim E.bessel E.smallZ E.tol _ l1 l2 ua a b A B = I
  by_cases hm : E.minExp < a * b
  · cases rc with
    | some v => simp [hm]
    | none => simp [hm]
  · simp [hm]

/-- budget lemma: leaving out the terms that fail `keep`, each of magnitude at most ε, changes a sum by at most
(number of dropped terms) · ε -/
theorem dropped_terms_budget (ts : List ℝ) (keep : ℝ → Bool) (ε : ℝ)
    (h : ∀ t ∈ ts, keep t = false → |t| ≤ ε) :
    |ts.sum - (ts.filter keep).sum| ≤ ((ts.filter fun t => !keep t).length : ℝ) * ε := by
  induction ts with
  | nil => simp
  | cons t ts ih =>
    have ih' := ih (fun u hu => h u (List.mem_cons_of_mem _ hu))
    cases hk : keep t with
    | true =>
      simp only [List.filter_cons, hk, List.sum_cons, Bool.not_true, if_true]
      simpa using ih'
    | false =>
      have ht := h t List.mem_cons_self hk
      simp only [List.filter_cons, hk, List.sum_cons, Bool.not_false, if_true, List.length_cons]
      push_cast
      have : t + ts.sum - (List.filter keep ts).sum = t + (ts.sum - (List.filter keep ts).sum) := add_sub_assoc _ _ _
      rw [this]
      have := abs_add_le t (ts.sum - (List.filter keep ts).sum)
      linarith

/-- the three thresholds of the working tree (regenerated constants) leave room in the property's allowance of 1e-9 per
unit of coefficient product: at most MAX_L+1 shell-pair terms with a slack factor 100, the radial threshold with a slack
of 1e5, the distance threshold with a slack of 100 -/
theorem thresholds_within_budget :
    ((Gen.ECPINT_TOLERANCE_num : ℚ) / Gen.ECPINT_TOLERANCE_den) * (Gen.LIBECPINT_MAX_L + 1) * 100 ≤ 1 / 1000000000 ∧
    ((Gen.RADIAL_THRESH_DEFAULT_num : ℚ) / Gen.RADIAL_THRESH_DEFAULT_den) * 100000 ≤ 1 / 1000000000 ∧
    ((Gen.TWO_C_TOLERANCE_num : ℚ) / Gen.TWO_C_TOLERANCE_den) * 100 ≤ 1 / 1000000000 := by
  norm_num [Gen.ECPINT_TOLERANCE_num, Gen.ECPINT_TOLERANCE_den, Gen.LIBECPINT_MAX_L, Gen.RADIAL_THRESH_DEFAULT_num, Gen.RADIAL_THRESH_DEFAULT_den, Gen.TWO_C_TOLERANCE_num, Gen.TWO_C_TOLERANCE_den]

end Ecpint.C06
