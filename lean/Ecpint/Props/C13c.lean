/- C13 (part c) — the closed form proved in C13b for the recursion `Pijk` IS the surface integral of the monomial
   x^{2i} y^{2j} z^{2k} over the unit sphere of ℝ³ (surface measure σ = volume.toSphere, total mass 4π).
   Route: the Gaussian trick.  ∫_{ℝ³} x^a y^b z^c e^{-|v|²} dv is computed twice, by Fubini (product of three Gaussian
   moments) and in polar coordinates (sphere integral × radial Gaussian moment).
   Helper lemmas: Ecpint/Lemmas/SphereInt.lean. -/
import Ecpint.Lemmas.SphereInt
import Ecpint.Props.C13b

namespace Ecpint.C13c
open MeasureTheory Set Metric Real
open scoped Nat

/-- ℝ³ -/
abbrev E3 := EuclideanSpace ℝ (Fin 3)

/-- the surface measure on the unit sphere of ℝ³ -/
noncomputable abbrev σ : Measure (sphere (0 : E3) 1) := (volume : Measure E3).toSphere

/-- the monomial x^a y^b z^c -/
def mono (a b c : ℕ) (v : E3) : ℝ := v 0 ^ a * v 1 ^ b * v 2 ^ c

theorem finrank_E3 : Module.finrank ℝ E3 = 3 := by simp

/-- homogeneity: monomial(r u) = r^{a+b+c} monomial(u) -/
theorem mono_smul (a b c : ℕ) (r : ℝ) (v : E3) : mono a b c (r • v) = r ^ (a + b + c) * mono a b c v := by
  simp only [mono, PiLp.smul_apply, smul_eq_mul]
  ring

/-- |v|² = x² + y² + z² -/
theorem norm_sq_E3 (v : E3) : ‖v‖ ^ 2 = v 0 ^ 2 + v 1 ^ 2 + v 2 ^ 2 := by
  rw [EuclideanSpace.norm_sq_eq, Fin.sum_univ_three]
  simp only [Real.norm_eq_abs, sq_abs]

/-- Fubini: the Gaussian-weighted monomial integrates over ℝ³ to the product of three one-dimensional moments -/
theorem integral_mono_gauss_prod (a b c : ℕ) :
    ∫ v : E3, mono a b c v * exp (-‖v‖ ^ 2)
      = (∫ t : ℝ, t ^ a * exp (-t ^ 2)) * (∫ t : ℝ, t ^ b * exp (-t ^ 2)) * (∫ t : ℝ, t ^ c * exp (-t ^ 2)) := by
  have := SphereInt.integral_euclidean_prod (ι := Fin 3)
    (fun i t => t ^ (![a, b, c] i) * exp (-t ^ 2))
  simp only [Fin.prod_univ_three, Matrix.cons_val_zero, Matrix.cons_val_one, Matrix.cons_val] at this
  rw [← this]
  refine integral_congr_ae (.of_forall fun v => ?_)
  simp only [mono, norm_sq_E3, neg_add, Real.exp_add]
  ring

/-- polar coordinates: the same integral is the sphere integral of the monomial times a radial Gaussian moment -/
theorem integral_mono_gauss_polar (a b c : ℕ) :
    ∫ v : E3, mono a b c v * exp (-‖v‖ ^ 2)
      = (∫ u : sphere (0 : E3) 1, mono a b c u.1 ∂σ) * ∫ r in Ioi (0 : ℝ), r ^ (a + b + c + 2) * exp (-r ^ 2) := by
  have := SphereInt.integral_sphere_mul_radial (volume : Measure E3)
    (fun v => mono a b c v * exp (-‖v‖ ^ 2)) (fun u => mono a b c u.1)
    (fun r => r ^ (a + b + c) * exp (-r ^ 2))
    (by
      intro u r hr
      have hu : ‖u.1‖ = 1 := by simp
      simp only [mono_smul, norm_smul, hu, mul_one, Real.norm_eq_abs, sq_abs]
      ring)
  rw [this, finrank_E3]
  congr 1
  refine setIntegral_congr_fun measurableSet_Ioi fun r _ => ?_
  ring

/-- the Gaussian trick, for arbitrary exponents -/
theorem gauss_moments_eq_sphere (a b c : ℕ) :
    (∫ t : ℝ, t ^ a * exp (-t ^ 2)) * (∫ t : ℝ, t ^ b * exp (-t ^ 2)) * (∫ t : ℝ, t ^ c * exp (-t ^ 2))
      = (∫ u : sphere (0 : E3) 1, mono a b c u.1 ∂σ) * (1 / 2 * Gamma ((((a + b + c + 2 : ℕ) : ℝ) + 1) / 2)) := by
  rw [← integral_mono_gauss_prod, integral_mono_gauss_polar, SphereInt.integral_Ioi_pow_mul_exp_neg_sq]

/-- Gamma-function form: ∫_{S²} x^{2i} y^{2j} z^{2k} dσ = 2 Γ(i+½) Γ(j+½) Γ(k+½) / Γ(i+j+k+3/2) -/
theorem sphere_integral_monomial_gamma (i j k : ℕ) :
    ∫ u : sphere (0 : E3) 1, (u.1 0) ^ (2 * i) * (u.1 1) ^ (2 * j) * (u.1 2) ^ (2 * k) ∂σ
      = 2 * Gamma ((i : ℝ) + 1 / 2) * Gamma ((j : ℝ) + 1 / 2) * Gamma ((k : ℝ) + 1 / 2)
          / Gamma ((i : ℝ) + j + k + 3 / 2) := by
  have h := gauss_moments_eq_sphere (2 * i) (2 * j) (2 * k)
  simp only [SphereInt.integral_pow_even_mul_exp_neg_sq] at h
  have e : (((2 * i + 2 * j + 2 * k + 2 : ℕ) : ℝ) + 1) / 2 = (i : ℝ) + j + k + 3 / 2 := by
    push_cast; ring
  rw [e] at h
  have hpos : 0 < Gamma ((i : ℝ) + j + k + 3 / 2) := Gamma_pos_of_pos (by positivity)
  change ∫ u : sphere (0 : E3) 1, mono (2 * i) (2 * j) (2 * k) u.1 ∂σ = _
  rw [eq_div_iff hpos.ne']
  linarith

/-- **the sphere integral of an even monomial is 4π (2i−1)!! (2j−1)!! (2k−1)!! / (2(i+j+k)+1)!!**
(in ℕ, 2·0 − 1 = 0 and 0‼ = 1, so (−1)!! = 1 is built in) -/
theorem sphere_integral_monomial (i j k : ℕ) :
    ∫ u : sphere (0 : EuclideanSpace ℝ (Fin 3)) 1, (u.1 0) ^ (2 * i) * (u.1 1) ^ (2 * j) * (u.1 2) ^ (2 * k)
        ∂(volume : Measure (EuclideanSpace ℝ (Fin 3))).toSphere
      = 4 * Real.pi * (((2 * i - 1)‼ * (2 * j - 1)‼ * (2 * k - 1)‼ : ℕ) : ℝ) / (((2 * (i + j + k) + 1)‼ : ℕ) : ℝ) := by
  rw [sphere_integral_monomial_gamma, Gamma_nat_add_half, Gamma_nat_add_half, Gamma_nat_add_half]
  have e : (i : ℝ) + j + k + 3 / 2 = ((i + j + k : ℕ) : ℝ) + 1 + 1 / 2 := by push_cast; ring
  rw [e, Gamma_nat_add_one_add_half]
  have hs : (0 : ℝ) < √π := Real.sqrt_pos.mpr pi_pos
  have hd : (((2 * (i + j + k) + 1)‼ : ℕ) : ℝ) ≠ 0 :=
    Nat.cast_ne_zero.mpr (Nat.pos_iff_ne_zero.mp (Nat.doubleFactorial_pos _))
  have h2 : ((2 : ℝ) ^ (i + j + k + 1)) = 2 * (2 ^ i * 2 ^ j * 2 ^ k) := by ring
  rw [h2]
  push_cast
  field_simp
  rw [Real.sq_sqrt pi_pos.le]
  norm_num

/-- total mass of the sphere: 4π -/
theorem sphere_total_mass : σ.real univ = 4 * Real.pi := by
  have := sphere_integral_monomial 0 0 0
  simpa using this

theorem sphere_total_mass_ennreal : σ univ = ENNReal.ofReal (4 * Real.pi) := by
  rw [← sphere_total_mass, ofReal_measureReal]

/-- the one-dimensional Gaussian moment of odd order vanishes -/
theorem integral_pow_odd_mul_exp_neg_sq {a : ℕ} (ha : Odd a) : ∫ t : ℝ, t ^ a * exp (-t ^ 2) = 0 := by
  have h := integral_neg_eq_self (fun t : ℝ => t ^ a * exp (-t ^ 2)) volume
  simp only [ha.neg_pow, neg_sq, neg_mul] at h
  rw [integral_neg] at h
  linarith

/-- **a monomial with an odd exponent integrates to 0 over the sphere** -/
theorem sphere_integral_odd (a b c : ℕ) (h : Odd a ∨ Odd b ∨ Odd c) :
    ∫ u : sphere (0 : EuclideanSpace ℝ (Fin 3)) 1, (u.1 0) ^ a * (u.1 1) ^ b * (u.1 2) ^ c
        ∂(volume : Measure (EuclideanSpace ℝ (Fin 3))).toSphere = 0 := by
  have hg := gauss_moments_eq_sphere a b c
  have hpos : 0 < Gamma ((((a + b + c + 2 : ℕ) : ℝ) + 1) / 2) := Gamma_pos_of_pos (by positivity)
  have h0 : (∫ t : ℝ, t ^ a * exp (-t ^ 2)) * (∫ t : ℝ, t ^ b * exp (-t ^ 2)) * (∫ t : ℝ, t ^ c * exp (-t ^ 2)) = 0 := by
    rcases h with h | h | h <;> simp [integral_pow_odd_mul_exp_neg_sq h]
  rw [h0] at hg
  have := mul_eq_zero.mp hg.symm
  rcases this with h | h
  · exact h
  · exfalso; linarith

/-- link to the model: the recursion `Pijk` of angular.cpp, run over ℝ with the constant 4π, computes the sphere integral -/
theorem pijkWith_eq_sphere_integral (i j k : ℕ) :
    Ecpint.Angular.pijkWith (4 * Real.pi) i j k
      = ∫ u : sphere (0 : EuclideanSpace ℝ (Fin 3)) 1, (u.1 0) ^ (2 * i) * (u.1 1) ^ (2 * j) * (u.1 2) ^ (2 * k)
          ∂(volume : Measure (EuclideanSpace ℝ (Fin 3))).toSphere := by
  rw [Ecpint.C13.pijkWith_closed, sphere_integral_monomial]
  have e : ∀ n, Ecpint.C13.oddFact n = (2 * n - 1)‼ := by
    intro n
    unfold Ecpint.C13.oddFact
    split_ifs with h
    · subst h; rfl
    · rfl
  simp only [e]
  push_cast
  ring

end Ecpint.C13c
