/- C12 — every closed-form radial case of the generated `switch` against the recurrences it was generated from.

   For every key in `radialCaseKeys`, `Ecpint.C12.case_<key>` (C12Cases/Part1 … Part9) proves, over any field of
   characteristic zero and for any base-integral families satisfying the four reduction relations,

     radialCase_<key> p x y (x*x) (y*y) (p*p) (valuesOf fam) (fam.GA 1) (fam.GB 1) (fam.H 2) = Q p x y fam i j k.

   `radialCase_<key>` is re-translated from src/lib/radial_gen.cpp on every run, so an edited coefficient in any of the
   63 cases makes exactly its theorem fail.  (History: on the pinned tree case 10110 was false - see Part9.lean.)

   `all_cases_listed` ties this file to the generated table: adding or removing a case there breaks the build here. -/
import Ecpint.Props.C12Cases.Part1
import Ecpint.Props.C12Cases.Part2
import Ecpint.Props.C12Cases.Part3
import Ecpint.Props.C12Cases.Part4
import Ecpint.Props.C12Cases.Part5
import Ecpint.Props.C12Cases.Part6
import Ecpint.Props.C12Cases.Part7
import Ecpint.Props.C12Cases.Part8
import Ecpint.Props.C12Cases.Part9
namespace Ecpint.C12
open Ecpint.RadialRec Ecpint.Gen

theorem all_cases_listed : radialCaseKeys =
    [2, 4, 6, 8, 10, 12, 101, 103, 105, 107, 109, 111, 202, 204, 206, 208, 210, 301, 303, 305, 307, 309,
     402, 404, 406, 408, 10102, 10104, 10106, 10108, 10110, 10201, 10203, 10205, 10207, 10209,
     10302, 10304, 10306, 10308, 10401, 10403, 10405, 10407, 20202, 20204, 20206, 20208,
     20301, 20303, 20305, 20307, 20402, 20404, 20406, 30302, 30304, 30306, 30401, 30403, 30405,
     40402, 40404] := by decide

/-- all 63 cases, one conjunct per key (so that a missing `case_<key>` is a build error) -/
theorem all_proved_cases {K : Type} [Field K] [CharZero K] (p x y : K) (hx : x ≠ 0) (hy : y ≠ 0) (fam : Fam K)
    (h : Reductions p x y fam) :
    (radialCase_2 p x y (x*x) (y*y) (p*p) (valuesOf fam) (fam.GA 1) (fam.GB 1) (fam.H 2) = Q p x y fam 0 0 2)
    ∧ (radialCase_4 p x y (x*x) (y*y) (p*p) (valuesOf fam) (fam.GA 1) (fam.GB 1) (fam.H 2) = Q p x y fam 0 0 4)
    ∧ (radialCase_6 p x y (x*x) (y*y) (p*p) (valuesOf fam) (fam.GA 1) (fam.GB 1) (fam.H 2) = Q p x y fam 0 0 6)
    ∧ (radialCase_8 p x y (x*x) (y*y) (p*p) (valuesOf fam) (fam.GA 1) (fam.GB 1) (fam.H 2) = Q p x y fam 0 0 8)
    ∧ (radialCase_10 p x y (x*x) (y*y) (p*p) (valuesOf fam) (fam.GA 1) (fam.GB 1) (fam.H 2) = Q p x y fam 0 0 10)
    ∧ (radialCase_12 p x y (x*x) (y*y) (p*p) (valuesOf fam) (fam.GA 1) (fam.GB 1) (fam.H 2) = Q p x y fam 0 0 12)
    ∧ (radialCase_101 p x y (x*x) (y*y) (p*p) (valuesOf fam) (fam.GA 1) (fam.GB 1) (fam.H 2) = Q p x y fam 0 1 1)
    ∧ (radialCase_103 p x y (x*x) (y*y) (p*p) (valuesOf fam) (fam.GA 1) (fam.GB 1) (fam.H 2) = Q p x y fam 0 1 3)
    ∧ (radialCase_105 p x y (x*x) (y*y) (p*p) (valuesOf fam) (fam.GA 1) (fam.GB 1) (fam.H 2) = Q p x y fam 0 1 5)
    ∧ (radialCase_107 p x y (x*x) (y*y) (p*p) (valuesOf fam) (fam.GA 1) (fam.GB 1) (fam.H 2) = Q p x y fam 0 1 7)
    ∧ (radialCase_109 p x y (x*x) (y*y) (p*p) (valuesOf fam) (fam.GA 1) (fam.GB 1) (fam.H 2) = Q p x y fam 0 1 9)
    ∧ (radialCase_111 p x y (x*x) (y*y) (p*p) (valuesOf fam) (fam.GA 1) (fam.GB 1) (fam.H 2) = Q p x y fam 0 1 11)
    ∧ (radialCase_202 p x y (x*x) (y*y) (p*p) (valuesOf fam) (fam.GA 1) (fam.GB 1) (fam.H 2) = Q p x y fam 0 2 2)
    ∧ (radialCase_204 p x y (x*x) (y*y) (p*p) (valuesOf fam) (fam.GA 1) (fam.GB 1) (fam.H 2) = Q p x y fam 0 2 4)
    ∧ (radialCase_206 p x y (x*x) (y*y) (p*p) (valuesOf fam) (fam.GA 1) (fam.GB 1) (fam.H 2) = Q p x y fam 0 2 6)
    ∧ (radialCase_208 p x y (x*x) (y*y) (p*p) (valuesOf fam) (fam.GA 1) (fam.GB 1) (fam.H 2) = Q p x y fam 0 2 8)
    ∧ (radialCase_210 p x y (x*x) (y*y) (p*p) (valuesOf fam) (fam.GA 1) (fam.GB 1) (fam.H 2) = Q p x y fam 0 2 10)
    ∧ (radialCase_301 p x y (x*x) (y*y) (p*p) (valuesOf fam) (fam.GA 1) (fam.GB 1) (fam.H 2) = Q p x y fam 0 3 1)
    ∧ (radialCase_303 p x y (x*x) (y*y) (p*p) (valuesOf fam) (fam.GA 1) (fam.GB 1) (fam.H 2) = Q p x y fam 0 3 3)
    ∧ (radialCase_305 p x y (x*x) (y*y) (p*p) (valuesOf fam) (fam.GA 1) (fam.GB 1) (fam.H 2) = Q p x y fam 0 3 5)
    ∧ (radialCase_307 p x y (x*x) (y*y) (p*p) (valuesOf fam) (fam.GA 1) (fam.GB 1) (fam.H 2) = Q p x y fam 0 3 7)
    ∧ (radialCase_309 p x y (x*x) (y*y) (p*p) (valuesOf fam) (fam.GA 1) (fam.GB 1) (fam.H 2) = Q p x y fam 0 3 9)
    ∧ (radialCase_402 p x y (x*x) (y*y) (p*p) (valuesOf fam) (fam.GA 1) (fam.GB 1) (fam.H 2) = Q p x y fam 0 4 2)
    ∧ (radialCase_404 p x y (x*x) (y*y) (p*p) (valuesOf fam) (fam.GA 1) (fam.GB 1) (fam.H 2) = Q p x y fam 0 4 4)
    ∧ (radialCase_406 p x y (x*x) (y*y) (p*p) (valuesOf fam) (fam.GA 1) (fam.GB 1) (fam.H 2) = Q p x y fam 0 4 6)
    ∧ (radialCase_408 p x y (x*x) (y*y) (p*p) (valuesOf fam) (fam.GA 1) (fam.GB 1) (fam.H 2) = Q p x y fam 0 4 8)
    ∧ (radialCase_10102 p x y (x*x) (y*y) (p*p) (valuesOf fam) (fam.GA 1) (fam.GB 1) (fam.H 2) = Q p x y fam 1 1 2)
    ∧ (radialCase_10104 p x y (x*x) (y*y) (p*p) (valuesOf fam) (fam.GA 1) (fam.GB 1) (fam.H 2) = Q p x y fam 1 1 4)
    ∧ (radialCase_10106 p x y (x*x) (y*y) (p*p) (valuesOf fam) (fam.GA 1) (fam.GB 1) (fam.H 2) = Q p x y fam 1 1 6)
    ∧ (radialCase_10108 p x y (x*x) (y*y) (p*p) (valuesOf fam) (fam.GA 1) (fam.GB 1) (fam.H 2) = Q p x y fam 1 1 8)
    ∧ (radialCase_10110 p x y (x*x) (y*y) (p*p) (valuesOf fam) (fam.GA 1) (fam.GB 1) (fam.H 2) = Q p x y fam 1 1 10)
    ∧ (radialCase_10201 p x y (x*x) (y*y) (p*p) (valuesOf fam) (fam.GA 1) (fam.GB 1) (fam.H 2) = Q p x y fam 1 2 1)
    ∧ (radialCase_10203 p x y (x*x) (y*y) (p*p) (valuesOf fam) (fam.GA 1) (fam.GB 1) (fam.H 2) = Q p x y fam 1 2 3)
    ∧ (radialCase_10205 p x y (x*x) (y*y) (p*p) (valuesOf fam) (fam.GA 1) (fam.GB 1) (fam.H 2) = Q p x y fam 1 2 5)
    ∧ (radialCase_10207 p x y (x*x) (y*y) (p*p) (valuesOf fam) (fam.GA 1) (fam.GB 1) (fam.H 2) = Q p x y fam 1 2 7)
    ∧ (radialCase_10209 p x y (x*x) (y*y) (p*p) (valuesOf fam) (fam.GA 1) (fam.GB 1) (fam.H 2) = Q p x y fam 1 2 9)
    ∧ (radialCase_10302 p x y (x*x) (y*y) (p*p) (valuesOf fam) (fam.GA 1) (fam.GB 1) (fam.H 2) = Q p x y fam 1 3 2)
    ∧ (radialCase_10304 p x y (x*x) (y*y) (p*p) (valuesOf fam) (fam.GA 1) (fam.GB 1) (fam.H 2) = Q p x y fam 1 3 4)
    ∧ (radialCase_10306 p x y (x*x) (y*y) (p*p) (valuesOf fam) (fam.GA 1) (fam.GB 1) (fam.H 2) = Q p x y fam 1 3 6)
    ∧ (radialCase_10308 p x y (x*x) (y*y) (p*p) (valuesOf fam) (fam.GA 1) (fam.GB 1) (fam.H 2) = Q p x y fam 1 3 8)
    ∧ (radialCase_10401 p x y (x*x) (y*y) (p*p) (valuesOf fam) (fam.GA 1) (fam.GB 1) (fam.H 2) = Q p x y fam 1 4 1)
    ∧ (radialCase_10403 p x y (x*x) (y*y) (p*p) (valuesOf fam) (fam.GA 1) (fam.GB 1) (fam.H 2) = Q p x y fam 1 4 3)
    ∧ (radialCase_10405 p x y (x*x) (y*y) (p*p) (valuesOf fam) (fam.GA 1) (fam.GB 1) (fam.H 2) = Q p x y fam 1 4 5)
    ∧ (radialCase_10407 p x y (x*x) (y*y) (p*p) (valuesOf fam) (fam.GA 1) (fam.GB 1) (fam.H 2) = Q p x y fam 1 4 7)
    ∧ (radialCase_20202 p x y (x*x) (y*y) (p*p) (valuesOf fam) (fam.GA 1) (fam.GB 1) (fam.H 2) = Q p x y fam 2 2 2)
    ∧ (radialCase_20204 p x y (x*x) (y*y) (p*p) (valuesOf fam) (fam.GA 1) (fam.GB 1) (fam.H 2) = Q p x y fam 2 2 4)
    ∧ (radialCase_20206 p x y (x*x) (y*y) (p*p) (valuesOf fam) (fam.GA 1) (fam.GB 1) (fam.H 2) = Q p x y fam 2 2 6)
    ∧ (radialCase_20208 p x y (x*x) (y*y) (p*p) (valuesOf fam) (fam.GA 1) (fam.GB 1) (fam.H 2) = Q p x y fam 2 2 8)
    ∧ (radialCase_20301 p x y (x*x) (y*y) (p*p) (valuesOf fam) (fam.GA 1) (fam.GB 1) (fam.H 2) = Q p x y fam 2 3 1)
    ∧ (radialCase_20303 p x y (x*x) (y*y) (p*p) (valuesOf fam) (fam.GA 1) (fam.GB 1) (fam.H 2) = Q p x y fam 2 3 3)
    ∧ (radialCase_20305 p x y (x*x) (y*y) (p*p) (valuesOf fam) (fam.GA 1) (fam.GB 1) (fam.H 2) = Q p x y fam 2 3 5)
    ∧ (radialCase_20307 p x y (x*x) (y*y) (p*p) (valuesOf fam) (fam.GA 1) (fam.GB 1) (fam.H 2) = Q p x y fam 2 3 7)
    ∧ (radialCase_20402 p x y (x*x) (y*y) (p*p) (valuesOf fam) (fam.GA 1) (fam.GB 1) (fam.H 2) = Q p x y fam 2 4 2)
    ∧ (radialCase_20404 p x y (x*x) (y*y) (p*p) (valuesOf fam) (fam.GA 1) (fam.GB 1) (fam.H 2) = Q p x y fam 2 4 4)
    ∧ (radialCase_20406 p x y (x*x) (y*y) (p*p) (valuesOf fam) (fam.GA 1) (fam.GB 1) (fam.H 2) = Q p x y fam 2 4 6)
    ∧ (radialCase_30302 p x y (x*x) (y*y) (p*p) (valuesOf fam) (fam.GA 1) (fam.GB 1) (fam.H 2) = Q p x y fam 3 3 2)
    ∧ (radialCase_30304 p x y (x*x) (y*y) (p*p) (valuesOf fam) (fam.GA 1) (fam.GB 1) (fam.H 2) = Q p x y fam 3 3 4)
    ∧ (radialCase_30306 p x y (x*x) (y*y) (p*p) (valuesOf fam) (fam.GA 1) (fam.GB 1) (fam.H 2) = Q p x y fam 3 3 6)
    ∧ (radialCase_30401 p x y (x*x) (y*y) (p*p) (valuesOf fam) (fam.GA 1) (fam.GB 1) (fam.H 2) = Q p x y fam 3 4 1)
    ∧ (radialCase_30403 p x y (x*x) (y*y) (p*p) (valuesOf fam) (fam.GA 1) (fam.GB 1) (fam.H 2) = Q p x y fam 3 4 3)
    ∧ (radialCase_30405 p x y (x*x) (y*y) (p*p) (valuesOf fam) (fam.GA 1) (fam.GB 1) (fam.H 2) = Q p x y fam 3 4 5)
    ∧ (radialCase_40402 p x y (x*x) (y*y) (p*p) (valuesOf fam) (fam.GA 1) (fam.GB 1) (fam.H 2) = Q p x y fam 4 4 2)
    ∧ (radialCase_40404 p x y (x*x) (y*y) (p*p) (valuesOf fam) (fam.GA 1) (fam.GB 1) (fam.H 2) = Q p x y fam 4 4 4) :=
  ⟨case_2 p x y hx hy fam h,
   case_4 p x y hx hy fam h,
   case_6 p x y hx hy fam h,
   case_8 p x y hx hy fam h,
   case_10 p x y hx hy fam h,
   case_12 p x y hx hy fam h,
   case_101 p x y hx hy fam h,
   case_103 p x y hx hy fam h,
   case_105 p x y hx hy fam h,
   case_107 p x y hx hy fam h,
   case_109 p x y hx hy fam h,
   case_111 p x y hx hy fam h,
   case_202 p x y hx hy fam h,
   case_204 p x y hx hy fam h,
   case_206 p x y hx hy fam h,
   case_208 p x y hx hy fam h,
   case_210 p x y hx hy fam h,
   case_301 p x y hx hy fam h,
   case_303 p x y hx hy fam h,
   case_305 p x y hx hy fam h,
   case_307 p x y hx hy fam h,
   case_309 p x y hx hy fam h,
   case_402 p x y hx hy fam h,
   case_404 p x y hx hy fam h,
   case_406 p x y hx hy fam h,
   case_408 p x y hx hy fam h,
   case_10102 p x y hx hy fam h,
   case_10104 p x y hx hy fam h,
   case_10106 p x y hx hy fam h,
   case_10108 p x y hx hy fam h,
   case_10110 p x y hx hy fam h,
   case_10201 p x y hx hy fam h,
   case_10203 p x y hx hy fam h,
   case_10205 p x y hx hy fam h,
   case_10207 p x y hx hy fam h,
   case_10209 p x y hx hy fam h,
   case_10302 p x y hx hy fam h,
   case_10304 p x y hx hy fam h,
   case_10306 p x y hx hy fam h,
   case_10308 p x y hx hy fam h,
   case_10401 p x y hx hy fam h,
   case_10403 p x y hx hy fam h,
   case_10405 p x y hx hy fam h,
   case_10407 p x y hx hy fam h,
   case_20202 p x y hx hy fam h,
   case_20204 p x y hx hy fam h,
   case_20206 p x y hx hy fam h,
   case_20208 p x y hx hy fam h,
   case_20301 p x y hx hy fam h,
   case_20303 p x y hx hy fam h,
   case_20305 p x y hx hy fam h,
   case_20307 p x y hx hy fam h,
   case_20402 p x y hx hy fam h,
   case_20404 p x y hx hy fam h,
   case_20406 p x y hx hy fam h,
   case_30302 p x y hx hy fam h,
   case_30304 p x y hx hy fam h,
   case_30306 p x y hx hy fam h,
   case_30401 p x y hx hy fam h,
   case_30403 p x y hx hy fam h,
   case_30405 p x y hx hy fam h,
   case_40402 p x y hx hy fam h,
   case_40404 p x y hx hy fam h⟩

end Ecpint.C12
