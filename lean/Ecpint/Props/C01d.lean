/- C01 (part d) — the special routine for a shell on the ECP centre is the general rolled-up contraction specialised:
   with A on the centre the binomial shift of shell A is trivial (C_A(a) = [a = ca]), only l1 = 0 radial integrals are
   non-zero, the harmonic S_00 is a constant, and 16π² · S_00 = 8π√π.  Definitions: Model/Contraction.lean. -/
import Ecpint.Model.Contraction
import Ecpint.Props.C07
import Ecpint.Props.C09
import Ecpint.Props.C01a
import Mathlib.Tactic.Ring
namespace Ecpint.C01
open Ecpint.Contraction Ecpint.ContractionLemmas Ecpint.C09Lemmas

variable {K : Type} [CommSemiring K]

/-- explicit-sum form of one entry of `rolled_up_special` -/
def rolledUpSpecialSum (omega : Nat → Nat → Nat → Nat → Nat → Nat → Nat → K) (keep : K → Bool) (prefac : K) (lam : Nat)
    (radials : Nat → Nat → Nat → K) (CBnb : Nat → Nat → Nat → K) (SB : Array (Array K))
    (ca cb : Nat × Nat × Nat) (mi : Nat) : K :=
  ((subIdx cb).map fun b =>
    let C := CBnb b.1 b.2.1 b.2.2
    if keep C then
      ((parityRange (lam + tsum b) (tsum ca + tsum b)).map fun lam2 =>
        ((List.range (2 * lam2 + 1)).map fun m2 =>
          prefac * C * radials (tsum ca + tsum b) 0 lam2 * get2 SB lam2 m2
            * omega ca.1 ca.2.1 ca.2.2 lam mi 0 0 * omega b.1 b.2.1 b.2.2 lam mi lam2 m2).sum).sum
    else 0).sum

/-- size and entries of the accumulator/array form in one statement -/
theorem rolledUpSpecialBlock_spec (omega : Nat → Nat → Nat → Nat → Nat → Nat → Nat → K) (keep : K → Bool) (prefac : K) (lam : Nat)
    (radials : Nat → Nat → Nat → K) (CBnb : Nat → Nat → Nat → K) (SB : Array (Array K))
    (ca cb : Nat × Nat × Nat) :
    (rolledUpSpecialBlock omega keep prefac lam radials CBnb SB ca cb).size = 2 * lam + 1 ∧
    ∀ mi, mi < 2 * lam + 1 → (rolledUpSpecialBlock omega keep prefac lam radials CBnb SB ca cb).getD mi 0
      = rolledUpSpecialSum omega keep prefac lam radials CBnb SB ca cb mi := by
  unfold rolledUpSpecialBlock rolledUpSpecialSum
  dsimp only
  apply AddsA.foldl_replicate
  intro b _
  refine AddsA.ite _ ?_
  refine AddsA.foldl _ _ _ (fun lam2 _ => ?_)
  refine AddsA.foldl _ _ _ (fun m2 _ => ?_)
  exact AddsA.mapIdx' _ _ _ (fun mi _ => by ring)

/-- the accumulator/array form the code runs equals the explicit sum, entry by entry -/
theorem rolledUpSpecialBlock_getD (omega : Nat → Nat → Nat → Nat → Nat → Nat → Nat → K) (keep : K → Bool) (prefac : K) (lam : Nat)
    (radials : Nat → Nat → Nat → K) (CBnb : Nat → Nat → Nat → K) (SB : Array (Array K))
    (ca cb : Nat × Nat × Nat) (mi : Nat) (hmi : mi < 2 * lam + 1) :
    (rolledUpSpecialBlock omega keep prefac lam radials CBnb SB ca cb).getD mi 0
      = rolledUpSpecialSum omega keep prefac lam radials CBnb SB ca cb mi :=
  (rolledUpSpecialBlock_spec omega keep prefac lam radials CBnb SB ca cb).2 mi hmi

theorem rolledUpSpecialBlock_size (omega : Nat → Nat → Nat → Nat → Nat → Nat → Nat → K) (keep : K → Bool) (prefac : K) (lam : Nat)
    (radials : Nat → Nat → Nat → K) (CBnb : Nat → Nat → Nat → K) (SB : Array (Array K))
    (ca cb : Nat × Nat × Nat) :
    (rolledUpSpecialBlock omega keep prefac lam radials CBnb SB ca cb).size = 2 * lam + 1 :=
  (rolledUpSpecialBlock_spec omega keep prefac lam radials CBnb SB ca cb).1

/-! ### a sum over the binomial-shift triples with a single non-zero term -/

theorem sum_map_flatMap {α β : Type} (l : List β) (f : β → List α) (g : α → K) :
    ((l.flatMap f).map g).sum = (l.map fun x => ((f x).map g).sum).sum := by
  induction l with
  | nil => rfl
  | cons x l ih => simp only [List.flatMap_cons, List.map_append, List.sum_append, ih, List.map_cons, List.sum_cons]

/-- the sum over `subIdx c` as three nested range sums -/
theorem sum_subIdx (c : Nat × Nat × Nat) (F : Nat × Nat × Nat → K) :
    ((subIdx c).map F).sum
      = ((List.range (c.1 + 1)).map fun ax => ((List.range (c.2.1 + 1)).map fun ay =>
          ((List.range (c.2.2 + 1)).map fun az => F (ax, ay, az)).sum).sum).sum := by
  unfold subIdx
  rw [sum_map_flatMap]
  refine sum_map_congr _ _ _ (fun ax _ => ?_)
  rw [sum_map_flatMap]
  refine sum_map_congr _ _ _ (fun ay _ => ?_)
  rw [List.map_map]
  rfl

/-- if `F` vanishes on all proper sub-triples, only the full triple contributes -/
theorem sum_subIdx_single (c : Nat × Nat × Nat) (F : Nat × Nat × Nat → K)
    (hF : ∀ a ∈ subIdx c, a ≠ c → F a = 0) : ((subIdx c).map F).sum = F c := by
  obtain ⟨c1, c2, c3⟩ := c
  rw [sum_subIdx]
  dsimp only
  rw [sum_range_single (c1 + 1) c1 _ (Nat.lt_succ_self _), sum_range_single (c2 + 1) c2 _ (Nat.lt_succ_self _),
    sum_range_single (c3 + 1) c3 _ (Nat.lt_succ_self _)]
  · intro az haz hne
    exact hF _ ((subIdx_mem _ _).mpr ⟨Nat.le_refl _, Nat.le_refl _, Nat.le_of_lt_succ haz⟩)
      (fun h => hne (by injection h with _ h; injection h))
  · intro ay hay hne
    refine sum_map_eq_zero _ _ (fun az haz => ?_)
    exact hF _ ((subIdx_mem _ _).mpr ⟨Nat.le_refl _, Nat.le_of_lt_succ hay, Nat.le_of_lt_succ (List.mem_range.mp haz)⟩)
      (fun h => hne (by injection h with _ h; injection h))
  · intro ax hax hne
    refine sum_map_eq_zero _ _ (fun ay hay => sum_map_eq_zero _ _ (fun az haz => ?_))
    exact hF _ ((subIdx_mem _ _).mpr ⟨Nat.le_of_lt_succ hax, Nat.le_of_lt_succ (List.mem_range.mp hay),
      Nat.le_of_lt_succ (List.mem_range.mp haz)⟩) (fun h => hne (by injection h))

theorem self_mem_subIdx (c : Nat × Nat × Nat) : c ∈ subIdx c :=
  (subIdx_mem c c).mpr ⟨Nat.le_refl _, Nat.le_refl _, Nat.le_refl _⟩

/-- the special routine is the general one under the on-centre facts: C_A is the indicator of the full exponent triple,
radial integrals with l1 > 0 vanish, S_A(0,0) = s00 and prefac · s00 = prefacS (16π² · 1/√(4π) = 8π√π) -/
theorem special_is_general (omega : Nat → Nat → Nat → Nat → Nat → Nat → Nat → K) (prefac prefacS s00 : K) (lam : Nat)
    (radials : Nat → Nat → Nat → K) (CAna CBnb : Nat → Nat → Nat → K) (SA SB : Array (Array K))
    (ca cb : Nat × Nat × Nat) (mi : Nat)
    (hCA : ∀ a ∈ subIdx ca, CAna a.1 a.2.1 a.2.2 = if a = ca then 1 else 0)
    (hrad : ∀ N l1 l2, 0 < l1 → radials N l1 l2 = 0)
    (hS : get2 SA 0 0 = s00) (hpre : prefac * s00 = prefacS) :
    C07.rolledUpSum omega (fun _ => true) prefac lam radials CAna CBnb SA SB ca cb mi
      = rolledUpSpecialSum omega (fun _ => true) prefacS lam radials CBnb SB ca cb mi := by
  unfold C07.rolledUpSum rolledUpSpecialSum
  dsimp only
  simp only [if_true]
  rw [sum_subIdx_single]
  · have h1 : CAna ca.1 ca.2.1 ca.2.2 = 1 := by rw [hCA ca (self_mem_subIdx ca), if_pos rfl]
    refine sum_map_congr _ _ _ (fun b _ => ?_)
    rw [sum_range_single (lam + tsum ca + 1) 0 _ (Nat.succ_pos _)]
    · rw [Nat.zero_add]
      refine sum_map_congr _ _ _ (fun lam2 _ => ?_)
      rw [C09.wContr_eq_sum, C09.wContr_eq_sum, h1, ← List.sum_map_mul_left]
      refine sum_map_congr _ _ _ (fun m2 _ => ?_)
      have h0 : List.range (2 * 0 + 1) = [0] := rfl
      rw [h0]
      simp only [List.map_cons, List.map_nil, List.sum_cons, List.sum_nil, add_zero]
      rw [hS, ← hpre]
      ring
    · intro l1 _ hne
      refine sum_map_eq_zero _ _ (fun lam2 _ => ?_)
      rw [hrad _ l1 _ (Nat.pos_of_ne_zero hne)]
      simp
  · intro a ha hne
    refine sum_map_eq_zero _ _ (fun b _ => sum_map_eq_zero _ _ (fun lam1 _ => sum_map_eq_zero _ _ (fun lam2 _ => ?_)))
    rw [hCA a ha, if_neg hne]
    simp

/-- array form: without the shortcut, the block the special routine computes is the block the general routine computes
on the on-centre data -/
theorem specialBlock_is_generalBlock (omega : Nat → Nat → Nat → Nat → Nat → Nat → Nat → K) (prefac prefacS s00 : K) (lam : Nat)
    (radials : Nat → Nat → Nat → K) (CAna CBnb : Nat → Nat → Nat → K) (SA SB : Array (Array K))
    (ca cb : Nat × Nat × Nat)
    (hCA : ∀ a ∈ subIdx ca, CAna a.1 a.2.1 a.2.2 = if a = ca then 1 else 0)
    (hrad : ∀ N l1 l2, 0 < l1 → radials N l1 l2 = 0)
    (hS : get2 SA 0 0 = s00) (hpre : prefac * s00 = prefacS) :
    rolledUpBlock omega (fun _ => true) prefac lam radials CAna CBnb SA SB ca cb
      = rolledUpSpecialBlock omega (fun _ => true) prefacS lam radials CBnb SB ca cb := by
  apply ext_getD
  · rw [C07.rolledUpBlock_size, rolledUpSpecialBlock_size]
  · intro mi hmi
    rw [C07.rolledUpBlock_size] at hmi
    rw [C07.rolledUpBlock_getD _ _ _ _ _ _ _ _ _ _ _ _ hmi, rolledUpSpecialBlock_getD _ _ _ _ _ _ _ _ _ _ hmi]
    exact special_is_general omega prefac prefacS s00 lam radials CAna CBnb SA SB ca cb mi hCA hrad hS hpre

/-! ### non-vacuity: a concrete instance over ℕ (lam = 1, ca = (1,0,1), cb = (0,1,1), mi = 1) -/
namespace ExampleD

def om : Nat → Nat → Nat → Nat → Nat → Nat → Nat → Nat :=
  fun ax ay az lam mi lam1 m1 => ax + 2 * ay + az + lam + mi + lam1 * m1 + 1
/-- radial integrals vanish for l1 > 0 (shell A on the centre) -/
def rad : Nat → Nat → Nat → Nat := fun N l1 l2 => if l1 = 0 then N + l2 + 1 else 0
/-- the binomial table of shell A on the centre: the indicator of the full exponent triple (1,0,1) -/
def cA : Nat → Nat → Nat → Nat := fun k l m => if (k, l, m) = ((1, 0, 1) : Nat × Nat × Nat) then 1 else 0
def cB : Nat → Nat → Nat → Nat := fun k l m => k + 3 * l + m + 1
def sA : Array (Array Nat) := #[#[3], #[1, 2, 3], #[2, 0, 1, 1, 3], #[1, 1, 0, 2, 0, 1, 1]]
def sB : Array (Array Nat) := #[#[2], #[0, 1, 1], #[1, 0, 3, 0, 1], #[1, 2, 0, 1, 0, 0, 2]]

theorem hCA : ∀ a ∈ subIdx (1, 0, 1), cA a.1 a.2.1 a.2.2 = if a = ((1, 0, 1) : Nat × Nat × Nat) then 1 else 0 := by
  intro a _
  rfl

theorem hrad : ∀ N l1 l2, 0 < l1 → rad N l1 l2 = 0 := by
  intro N l1 l2 h
  simp [rad, Nat.ne_of_gt h]

/-- the explicit sum of the special routine evaluates (in the kernel) to a specific non-zero number -/
example : rolledUpSpecialSum om (fun _ => true) 6 1 rad cB sB (1, 0, 1) (0, 1, 1) 1 = 73140 := by decide

/-- so does the explicit sum of the general routine on the on-centre data (prefac = 2, s00 = 3, prefacS = 6) -/
example : C07.rolledUpSum om (fun _ => true) 2 1 rad cA cB sA sB (1, 0, 1) (0, 1, 1) 1 = 73140 := by decide

/-- the hypotheses of `special_is_general` hold on this instance, and the common value is 73140 -/
example : C07.rolledUpSum om (fun _ => true) 2 1 rad cA cB sA sB (1, 0, 1) (0, 1, 1) 1 = 73140 := by
  rw [special_is_general om 2 6 3 1 rad cA cB sA sB (1, 0, 1) (0, 1, 1) 1 hCA hrad rfl rfl]
  decide

/-- hence so do the entries of the arrays the two routines compute -/
example : (rolledUpSpecialBlock om (fun _ => true) 6 1 rad cB sB (1, 0, 1) (0, 1, 1)).getD 1 0 = 73140 := by
  rw [rolledUpSpecialBlock_getD om (fun _ => true) 6 1 rad cB sB (1, 0, 1) (0, 1, 1) 1 (by decide)]
  decide

example : (rolledUpBlock om (fun _ => true) 2 1 rad cA cB sA sB (1, 0, 1) (0, 1, 1)).getD 1 0
    = (rolledUpSpecialBlock om (fun _ => true) 6 1 rad cB sB (1, 0, 1) (0, 1, 1)).getD 1 0 := by
  rw [C07.rolledUpBlock_getD _ _ _ _ _ _ _ _ _ _ _ 1 (by decide),
    rolledUpSpecialBlock_getD _ _ _ _ _ _ _ _ _ 1 (by decide)]
  exact special_is_general om 2 6 3 1 rad cA cB sA sB (1, 0, 1) (0, 1, 1) 1 hCA hrad rfl rfl

end ExampleD

end Ecpint.C01
