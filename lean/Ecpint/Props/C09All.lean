/- C09 — root of the property's theorems:
   C09   the generator's expansion equals the generic contraction (unroll_correct), line order / zero lines irrelevant,
         the |C| shortcut exact
   C09b  the type-1 table entries do not depend on the table limit (hence on MAX_L) once the limit covers the monomial's
         degree; the type-2 entry has no size parameter at all -/
import Ecpint.Props.C09
import Ecpint.Props.C09b
