/-
C14c — what the tabulation of `BesselFunction` (Model/Bessel.lean: `dfacTable`, `seriesLoop`, `seriesSum`, `tabulateRow`)
computes, over ℝ: every stored K[i][l] is e^{-z} times a partial sum of the power series of i_l(z).
-/
import Ecpint.Model.Bessel
import Ecpint.Lemmas.Bessel
import Ecpint.Gen.Constants
import Mathlib.Tactic.NormNum
import Mathlib.Analysis.SpecialFunctions.Exp
import Mathlib.Data.Nat.Factorial.DoubleFactorial
import Mathlib.Algebra.BigOperators.Group.Finset.Basic
import Mathlib.Algebra.Order.Floor.Ring
import Mathlib.Tactic.Ring
import Mathlib.Tactic.FieldSimp
import Mathlib.Tactic.Linarith
import Mathlib.Tactic.IntervalCases

namespace Ecpint.C14c
open Ecpint.Bessel
open scoped Nat

/-- the real numbers as scalars of the Bessel model -/
noncomputable instance : Bessel.Num ℝ :=
  { exp := Real.exp, floorNat := fun x => ⌊x⌋₊, abs := fun x => |x|, decLt := fun _ _ => Classical.propDecidable _ }

theorem getBang_push_lt (a : Array ℝ) (x : ℝ) (i : ℕ) (h : i < a.size) : (a.push x)[i]! = a[i]! := by
  rw [getElem!_pos (a.push x) i (by simp; omega), getElem!_pos a i h, Array.getElem_push_lt]

theorem getBang_push_eq (a : Array ℝ) (x : ℝ) : (a.push x)[a.size]! = x := by
  rw [getElem!_pos _ _ (by simp)]; simp

theorem dfac_foldl (m : ℕ) :
    ((List.range m).foldl (fun (a : Array ℝ) k => a.push (((k + 2 : ℕ) : ℝ) * a[k]!)) #[1, 1]).size = m + 2 ∧
    ∀ i < m + 2, ((List.range m).foldl (fun (a : Array ℝ) k => a.push (((k + 2 : ℕ) : ℝ) * a[k]!)) #[1, 1])[i]!
      = ((i‼ : ℕ) : ℝ) := by
  induction m with
  | zero =>
    refine ⟨rfl, fun i hi => ?_⟩
    interval_cases i <;> simp
  | succ m ih =>
    rw [List.range_succ, List.foldl_append]
    set a := (List.range m).foldl (fun (a : Array ℝ) k => a.push (((k + 2 : ℕ) : ℝ) * a[k]!)) #[1, 1] with ha
    obtain ⟨hs, hv⟩ := ih
    simp only [List.foldl_cons, List.foldl_nil]
    refine ⟨by simp [hs], fun i hi => ?_⟩
    by_cases h : i < m + 2
    · rw [getBang_push_lt _ _ _ (by omega)]; exact hv i h
    · have e : i = a.size := by omega
      rw [e, getBang_push_eq, hv m (by omega), hs, Nat.doubleFactorial_add_two]
      push_cast; ring

/-- `DFAC[i] = i!!` for every index of the table -/
theorem dfacTable_spec (n i : ℕ) (hi : i < n) (hn : 2 ≤ n) : (dfacTable (α := ℝ) n)[i]! = ((i‼ : ℕ) : ℝ) := by
  unfold dfacTable
  exact (dfac_foldl (n - 2)).2 i (by omega)


/-! ### the series loop -/

/-- invariant of the series loop of `tabulate`: the terms stored so far, the last ratio, and the running K_0 sum -/
structure SInv (dfac : Array ℝ) (F0 z2 : ℝ) (j : ℕ) (F : Array ℝ) (ratio k0 : ℝ) : Prop where
  pos : 1 ≤ j
  size : F.size = j
  vals : ∀ m < j, F[m]! = F0 * z2 ^ m / (m ! : ℝ)
  ratio_eq : ratio = F[j - 1]! / dfac[2 * (j - 1) + 1]!
  k0_eq : k0 = ∑ m ∈ Finset.range j, F[m]! / dfac[2 * m + 1]!

theorem seriesLoop_inv (dfac : Array ℝ) (F0 z2 acc : ℝ) (fuel : ℕ) :
    ∀ (j : ℕ) (F : Array ℝ) (ratio k0 : ℝ), SInv dfac F0 z2 j F ratio k0 →
      let r := seriesLoop dfac z2 acc fuel j F ratio k0
      SInv dfac F0 z2 r.2.2 r.1 (r.1[r.2.2 - 1]! / dfac[2 * (r.2.2 - 1) + 1]!) r.2.1 ∧ j ≤ r.2.2 ∧ r.2.2 ≤ j + fuel ∧
        (r.2.2 < j + fuel → r.1[r.2.2 - 1]! / dfac[2 * (r.2.2 - 1) + 1]! < acc) := by
  induction fuel with
  | zero =>
    intro j F ratio k0 h
    simp only [seriesLoop]
    exact ⟨⟨h.pos, h.size, h.vals, rfl, h.k0_eq⟩, le_refl _, le_refl _, fun hh => absurd hh (lt_irrefl _)⟩
  | succ fuel ih =>
    intro j F ratio k0 h
    simp only [seriesLoop]
    split
    · rename_i hlt
      refine ⟨⟨h.pos, h.size, h.vals, rfl, h.k0_eq⟩, le_refl _, by simp only; omega, fun _ => ?_⟩
      simp only
      rw [← h.ratio_eq]; exact hlt
    · have hj := h.pos
      have hstep : SInv dfac F0 z2 (j + 1) (F.push (F[j - 1]! * z2 / (j : ℝ)))
          (F[j - 1]! * z2 / (j : ℝ) / dfac[2 * j + 1]!) (k0 + F[j - 1]! * z2 / (j : ℝ) / dfac[2 * j + 1]!) := by
        have hget : ∀ x : ℝ, (F.push x)[j]! = x := fun x => by
          have := getBang_push_eq F x; rwa [h.size] at this
        have hnew : (F.push (F[j - 1]! * z2 / (j : ℝ)))[j]! = F0 * z2 ^ j / (j ! : ℝ) := by
          rw [hget, h.vals (j - 1) (by omega)]
          obtain ⟨i, rfl⟩ : ∃ i, j = i + 1 := ⟨j - 1, by omega⟩
          have h1 : ((i ! : ℕ) : ℝ) ≠ 0 := Nat.cast_ne_zero.mpr (Nat.factorial_ne_zero i)
          have h2 : ((i + 1 : ℕ) : ℝ) ≠ 0 := Nat.cast_ne_zero.mpr (Nat.succ_ne_zero i)
          simp only [Nat.add_sub_cancel, Nat.factorial_succ, Nat.cast_mul, pow_succ]
          field_simp
        refine ⟨by omega, by simp [h.size], fun m hm => ?_, ?_, ?_⟩
        · by_cases hm' : m < j
          · rw [getBang_push_lt _ _ _ (by rw [h.size]; exact hm')]; exact h.vals m hm'
          · have : m = j := by omega
            rw [this]; exact hnew
        · simp only [Nat.add_sub_cancel]
          rw [hget]
        · rw [Finset.sum_range_succ, h.k0_eq]
          congr 1
          · apply Finset.sum_congr rfl
            intro m hm
            rw [getBang_push_lt _ _ _ (by rw [h.size]; exact Finset.mem_range.mp hm)]
          · rw [hget]
      obtain ⟨a, b, c, d⟩ := ih _ _ _ _ hstep
      exact ⟨a, by omega, by omega, fun hh => d (by omega)⟩


/-- the loop cannot run past the first index whose ratio is below the accuracy -/
theorem seriesLoop_stops (dfac : Array ℝ) (F0 z2 acc : ℝ) (J0 : ℕ)
    (hJ0 : F0 * z2 ^ J0 / (J0 ! : ℝ) / dfac[2 * J0 + 1]! < acc) (fuel : ℕ) :
    ∀ (j : ℕ) (F : Array ℝ) (ratio k0 : ℝ), SInv dfac F0 z2 j F ratio k0 → j ≤ J0 + 1 →
      (seriesLoop dfac z2 acc fuel j F ratio k0).2.2 ≤ J0 + 1 := by
  induction fuel with
  | zero => intro j F ratio k0 _ hj; simpa [seriesLoop] using hj
  | succ fuel ih =>
    intro j F ratio k0 h hj
    simp only [seriesLoop]
    split
    · simpa using hj
    · rename_i hnot
      have hjlt : j ≤ J0 := by
        by_contra hc
        have e : j - 1 = J0 := by omega
        apply hnot
        rw [h.ratio_eq, h.vals (j - 1) (by have := h.pos; omega), e]
        exact hJ0
      -- the pushed state satisfies the invariant again (same computation as in `seriesLoop_inv`)
      have hstep := (seriesLoop_inv dfac F0 z2 acc 1 j F ratio k0 h)
      simp only [seriesLoop, hnot, if_false] at hstep
      have hs := hstep.1
      refine ih _ _ _ _ ⟨hs.pos, hs.size, hs.vals, ?_, hs.k0_eq⟩ (by omega)
      simp only [Nat.add_sub_cancel]
      have := getBang_push_eq F (F[j - 1]! * z2 / (j : ℝ))
      rw [h.size] at this
      rw [this]

/-! ### one table row -/

/-- the J-term partial sum of the power series of K_l(z) = e^{-z} i_l(z):
e^{-z} Σ_{m<J} z^l (z²/2)^m / (m! (2l+2m+1)!!) -/
noncomputable def Kpartial (J l : ℕ) (z : ℝ) : ℝ :=
  Real.exp (-z) * ∑ m ∈ Finset.range J, z ^ l * ((z ^ 2 / 2) ^ m / (m ! : ℝ) / (((2 * l + 2 * m + 1)‼ : ℕ) : ℝ))

theorem seriesSum_eq (dfac F : Array ℝ) (J l : ℕ) :
    seriesSum dfac F J l = ∑ m ∈ Finset.range J, F[m]! / dfac[2 * l + 2 * m + 1]! := by
  unfold seriesSum
  exact BesselLemmas.foldl_sum_range (fun m => F[m]! / dfac[2 * l + 2 * m + 1]!) J

theorem row_foldl (z k0 : ℝ) (g : ℕ → ℝ) (k : ℕ) :
    let r := (List.range k).foldl (fun (acc : Array ℝ × ℝ) i => (acc.1.push (acc.2 * g (i + 1)), acc.2 * z)) (#[k0], z)
    r.1.size = k + 1 ∧ r.2 = z ^ (k + 1) ∧ r.1[0]! = k0 ∧ ∀ l, 1 ≤ l → l ≤ k → r.1[l]! = z ^ l * g l := by
  induction k with
  | zero =>
    simp only [List.range_zero, List.foldl_nil]
    exact ⟨rfl, by ring, rfl, fun l h1 h0 => by omega⟩
  | succ k ih =>
    simp only [List.range_succ, List.foldl_append, List.foldl_cons, List.foldl_nil]
    obtain ⟨h1, h2, h3, h4⟩ := ih
    refine ⟨by simp [h1], by rw [h2]; ring, ?_, fun l hl hlk => ?_⟩
    · rw [getBang_push_lt _ _ _ (by omega)]; exact h3
    · by_cases h : l ≤ k
      · rw [getBang_push_lt _ _ _ (by omega)]; exact h4 l hl h
      · have e : l = k + 1 := by omega
        have := getBang_push_eq ((List.range k).foldl (fun (acc : Array ℝ × ℝ) i => (acc.1.push (acc.2 * g (i + 1)), acc.2 * z)) (#[k0], z)).1
          (((List.range k).foldl (fun (acc : Array ℝ × ℝ) i => (acc.1.push (acc.2 * g (i + 1)), acc.2 * z)) (#[k0], z)).2 * g (k + 1))
        rw [h1] at this
        rw [e, this, h2]

/-- EVERY entry of a table row is e^{-z} times a partial sum of the power series of i_l, with the SAME number J of terms for
all l; J is where the l = 0 term first drops below the accuracy (or order + 1).  The hypothesis `2 lmax + 2 J ≤ n` says that
every index into the double-factorial table is inside it (see `tabulate_indices_in_table` for the shipped constants). -/
theorem tabulateRow_spec (n N order lmax : ℕ) (acc : ℝ) (i : ℕ) (hn : 2 ≤ n) :
    ∃ J, 1 ≤ J ∧ J ≤ order + 1 ∧
      (tabulateRow (dfacTable (α := ℝ) n) N order lmax acc i).size = lmax + 1 ∧
      (2 * lmax + 2 * J ≤ n →
        (J ≤ order → Kpartial J 0 ((i : ℝ) / ((N : ℝ) / 16)) - Kpartial (J - 1) 0 ((i : ℝ) / ((N : ℝ) / 16)) < acc) ∧
        ∀ l ≤ lmax,
          (tabulateRow (dfacTable (α := ℝ) n) N order lmax acc i)[l]! = Kpartial J l ((i : ℝ) / ((N : ℝ) / 16))) := by
  set dfac := dfacTable (α := ℝ) n with hdfac
  have hd : ∀ k, k < n → dfac[k]! = ((k‼ : ℕ) : ℝ) := fun k hk => dfacTable_spec n k hk hn
  have hd0 : dfac[0]! = 1 := by simpa using hd 0 (by omega)
  have hd1 : dfac[1]! = 1 := by simpa using hd 1 (by omega)
  have hcast : (((16 : ℕ) : ℝ)) = 16 := by norm_num
  set z : ℝ := (i : ℝ) / ((N : ℝ) / 16) with hz
  have hinit : SInv dfac (Real.exp (-z)) (z * z / 2) 1 #[Real.exp (-z)] (Real.exp (-z) / dfac[0]!) (Real.exp (-z) / dfac[0]!) :=
    ⟨le_refl _, rfl, fun m hm => by (have : m = 0 := by omega); subst this; simp, by simp [hd0, hd1], by simp [hd0, hd1]⟩
  have hinv := seriesLoop_inv dfac (Real.exp (-z)) (z * z / 2) acc order 1 _ _ _ hinit
  have hrow : tabulateRow dfac N order lmax acc i =
      ((List.range lmax).foldl (fun (a : Array ℝ × ℝ) k =>
        (a.1.push (a.2 * seriesSum dfac (seriesLoop dfac (z * z / 2) acc order 1 #[Real.exp (-z)] (Real.exp (-z) / dfac[0]!)
          (Real.exp (-z) / dfac[0]!)).1 (seriesLoop dfac (z * z / 2) acc order 1 #[Real.exp (-z)] (Real.exp (-z) / dfac[0]!)
          (Real.exp (-z) / dfac[0]!)).2.2 (k + 1)), a.2 * z))
        (#[(seriesLoop dfac (z * z / 2) acc order 1 #[Real.exp (-z)] (Real.exp (-z) / dfac[0]!) (Real.exp (-z) / dfac[0]!)).2.1], z)).1 := by
    simp only [tabulateRow, hz, hcast]
    rfl
  rcases hr : seriesLoop dfac (z * z / 2) acc order 1 #[Real.exp (-z)] (Real.exp (-z) / dfac[0]!) (Real.exp (-z) / dfac[0]!)
    with ⟨F, k0, J⟩
  rw [hr] at hinv hrow
  simp only at hinv hrow
  obtain ⟨hS, hJ1, hJ2, hstop⟩ := hinv
  obtain ⟨r1, r2, r3, r4⟩ := row_foldl z k0 (fun l => seriesSum dfac F J l) lmax
  have hterm : ∀ l m, m < J → 2 * l + 2 * m + 1 < n →
      F[m]! / dfac[2 * l + 2 * m + 1]! = Real.exp (-z) * ((z ^ 2 / 2) ^ m / (m ! : ℝ) / (((2 * l + 2 * m + 1)‼ : ℕ) : ℝ)) := by
    intro l m hm hlt
    rw [hS.vals m hm, hd _ hlt]
    have : z * z / 2 = z ^ 2 / 2 := by ring
    rw [this]; ring
  refine ⟨J, hJ1, by omega, by rw [hrow, r1], fun hidx => ⟨fun hJo => ?_, fun l hl => ?_⟩⟩
  · -- the stopping test: the last l = 0 term is below the accuracy
    have hlast := hstop (by omega)
    obtain ⟨j', rfl⟩ : ∃ j', J = j' + 1 := ⟨J - 1, by omega⟩
    simp only [Nat.add_sub_cancel] at hlast ⊢
    unfold Kpartial
    rw [Finset.sum_range_succ, mul_add, add_sub_cancel_left]
    have := hterm 0 j' (by omega) (by omega)
    simp only [Nat.mul_zero, Nat.zero_add] at this
    rw [this] at hlast
    simpa using hlast
  · rw [hrow]
    rcases Nat.eq_zero_or_pos l with h0 | hpos
    · subst h0
      rw [r3, hS.k0_eq]
      unfold Kpartial
      rw [Finset.mul_sum]
      apply Finset.sum_congr rfl
      intro m hm
      have := hterm 0 m (Finset.mem_range.mp hm) (by have := Finset.mem_range.mp hm; omega)
      simp only [Nat.mul_zero, Nat.zero_add] at this
      rw [this]; simp
    · rw [r4 l hpos hl, seriesSum_eq]
      unfold Kpartial
      rw [Finset.mul_sum, Finset.mul_sum]
      apply Finset.sum_congr rfl
      intro m hm
      rw [hterm l m (Finset.mem_range.mp hm) (by have := Finset.mem_range.mp hm; omega)]
      ring


/-! ### the shipped constants: the series loop stops long before any table ends -/

theorem fac34 : (34 ! : ℕ) = 295232799039604140847618609643520000000 := by decide
theorem dfac69 : (69‼ : ℕ) = 33738248995437774706530672059641953140588743359375 := by decide

theorem ratio34_small : (128 : ℝ) ^ 34 / ((34 ! : ℕ) : ℝ) / (((69‼ : ℕ)) : ℝ) < 1 / 10 ^ 15 := by
  rw [fac34, dfac69]
  norm_num

/-- For the constants of the working tree (grid 0..16 in BESSEL_N steps, series order BESSEL_ORDER, double-factorial table
MAX_DFAC, accuracy at least the default radial threshold 1e-15) and every order an engine can initialise
(lmax ≤ 3·MAX_L + TAYLOR_CUT), in exact arithmetic: the series loop of `tabulate` stops after at most 35 terms, so it never
leaves `F[order+1]`, and every index `2l+2m+1` it forms is inside `DFAC[MAX_DFAC]`. -/
theorem tabulate_indices_in_table (i : ℕ) (hi : i ≤ Gen.BESSEL_N) (acc : ℝ)
    (hacc : (Gen.RADIAL_THRESH_DEFAULT_num : ℝ) / Gen.RADIAL_THRESH_DEFAULT_den ≤ acc)
    (lmax : ℕ) (hl : lmax ≤ 3 * Gen.LIBECPINT_MAX_L + Gen.TAYLOR_CUT) :
    let dfac := dfacTable (α := ℝ) Gen.MAX_DFAC
    let z : ℝ := (i : ℝ) / ((Gen.BESSEL_N : ℝ) / 16)
    let J := (seriesLoop dfac (z * z / 2) acc Gen.BESSEL_ORDER 1 #[Real.exp (-z)] (Real.exp (-z) / dfac[0]!)
      (Real.exp (-z) / dfac[0]!)).2.2
    J ≤ 35 ∧ J ≤ Gen.BESSEL_ORDER ∧ 2 * lmax + 2 * J ≤ Gen.MAX_DFAC := by
  intro dfac z J
  have hd : ∀ k, k < Gen.MAX_DFAC → dfac[k]! = ((k‼ : ℕ) : ℝ) := fun k hk => dfacTable_spec _ k hk (by decide)
  have hd0 : dfac[0]! = 1 := by simpa using hd 0 (by decide)
  have hd1 : dfac[1]! = 1 := by simpa using hd 1 (by decide)
  have hz0 : 0 ≤ z := div_nonneg (Nat.cast_nonneg _) (div_nonneg (Nat.cast_nonneg _) (by norm_num))
  have hz16 : z ≤ 16 := by
    have hN : (i : ℝ) ≤ (Gen.BESSEL_N : ℝ) := by exact_mod_cast hi
    have hNpos : (0 : ℝ) < (Gen.BESSEL_N : ℝ) / 16 := by simp [Gen.BESSEL_N]
    rw [div_le_iff₀ hNpos]
    have : (16 : ℝ) * ((Gen.BESSEL_N : ℝ) / 16) = Gen.BESSEL_N := by ring
    linarith
  clear_value z
  have hinit : SInv dfac (Real.exp (-z)) (z * z / 2) 1 #[Real.exp (-z)] (Real.exp (-z) / dfac[0]!) (Real.exp (-z) / dfac[0]!) :=
    ⟨le_refl _, rfl, fun m hm => by (have : m = 0 := by omega); subst this; simp, by simp [hd0, hd1], by simp [hd0, hd1]⟩
  have h34 : Real.exp (-z) * (z * z / 2) ^ 34 / ((34 ! : ℕ) : ℝ) / dfac[2 * 34 + 1]! < acc := by
    rw [hd (2 * 34 + 1) (by simp [Gen.MAX_DFAC])]
    have he : Real.exp (-z) ≤ 1 := Real.exp_le_one_iff.mpr (by linarith)
    have hzz : 0 ≤ z * z / 2 := by have := mul_nonneg hz0 hz0; linarith
    have hp : (z * z / 2) ^ 34 ≤ (128 : ℝ) ^ 34 := by
      apply pow_le_pow_left₀ hzz
      nlinarith
    have hpos : (0 : ℝ) ≤ (z * z / 2) ^ 34 := pow_nonneg hzz 34
    have h1 : Real.exp (-z) * (z * z / 2) ^ 34 ≤ (128 : ℝ) ^ 34 := by
      calc Real.exp (-z) * (z * z / 2) ^ 34 ≤ 1 * (z * z / 2) ^ 34 := mul_le_mul_of_nonneg_right he hpos
        _ ≤ (128 : ℝ) ^ 34 := by rw [one_mul]; exact hp
    have hf : (0 : ℝ) < ((34 ! : ℕ) : ℝ) := Nat.cast_pos.mpr (Nat.factorial_pos 34)
    have hdf : (0 : ℝ) < (((2 * 34 + 1)‼ : ℕ) : ℝ) := Nat.cast_pos.mpr (Nat.doubleFactorial_pos _)
    calc Real.exp (-z) * (z * z / 2) ^ 34 / ((34 ! : ℕ) : ℝ) / (((2 * 34 + 1)‼ : ℕ) : ℝ)
        ≤ (128 : ℝ) ^ 34 / ((34 ! : ℕ) : ℝ) / (((2 * 34 + 1)‼ : ℕ) : ℝ) := by
          apply div_le_div_of_nonneg_right _ hdf.le
          exact div_le_div_of_nonneg_right h1 hf.le
      _ < 1 / 10 ^ 15 := ratio34_small
      _ ≤ acc := by
          refine le_trans (le_of_eq ?_) hacc
          simp only [Gen.RADIAL_THRESH_DEFAULT_num, Gen.RADIAL_THRESH_DEFAULT_den]; norm_num
  have hJ : J ≤ 34 + 1 := seriesLoop_stops dfac (Real.exp (-z)) (z * z / 2) acc 34 h34 Gen.BESSEL_ORDER 1 _ _ _ hinit (by omega)
  refine ⟨hJ, ?_, ?_⟩
  · simp only [Gen.BESSEL_ORDER]; omega
  · simp only [Gen.MAX_DFAC, Gen.LIBECPINT_MAX_L, Gen.TAYLOR_CUT] at hl ⊢; omega


/-! ### the derivative tables -/

/-- what the derivative recurrence of `tabulate` produces from a row k: entry (n, l) -/
noncomputable def dRec (k : ℕ → ℝ) : ℕ → ℕ → ℝ
  | 0, l => k l
  | n + 1, 0 => dRec k n 1 - dRec k n 0
  | n + 1, l + 1 => recStep (l + 1) (dRec k n l) (dRec k n (l + 2)) (dRec k n (l + 1))

theorem derivNext_get (width top : ℕ) (prev : Array ℝ) (l : ℕ) (hl : l < width) :
    (derivNext width top prev)[l]! =
      if l = 0 then prev[1]! - prev[0]! else if l ≤ top then recStep l prev[l - 1]! prev[l + 1]! prev[l]! else 0 := by
  unfold derivNext
  rw [getElem!_pos _ _ (by simpa using hl)]
  simp

theorem derivRows_foldl (lMax tc : ℕ) (krow : Array ℝ) (m : ℕ) (hm : m ≤ tc) :
    let d := (List.range m).foldl (fun (d : Array (Array ℝ)) i =>
      d.push (derivNext (lMax + tc + 1) (lMax + tc - (i + 1)) d[i]!)) #[krow]
    d.size = m + 1 ∧ ∀ n ≤ m, ∀ l, l + n ≤ lMax + tc → (d[n]!)[l]! = dRec (fun l => krow[l]!) n l := by
  induction m with
  | zero =>
    simp only [List.range_zero, List.foldl_nil]
    refine ⟨rfl, fun n hn l _ => ?_⟩
    have : n = 0 := by omega
    subst this
    simp [dRec]
  | succ m ih =>
    obtain ⟨hs, hv⟩ := ih (by omega)
    simp only [List.range_succ, List.foldl_append, List.foldl_cons, List.foldl_nil]
    set d := (List.range m).foldl (fun (d : Array (Array ℝ)) i =>
      d.push (derivNext (lMax + tc + 1) (lMax + tc - (i + 1)) d[i]!)) #[krow] with hd
    refine ⟨by simp [hs], fun n hn l hl => ?_⟩
    by_cases h : n ≤ m
    · have : (d.push (derivNext (lMax + tc + 1) (lMax + tc - (m + 1)) d[m]!))[n]! = d[n]! := by
        rw [getElem!_pos _ _ (by simp; omega), getElem!_pos d n (by omega), Array.getElem_push_lt]
      rw [this]; exact hv n h l hl
    · have e : n = m + 1 := by omega
      subst e
      have : (d.push (derivNext (lMax + tc + 1) (lMax + tc - (m + 1)) d[m]!))[m + 1]!
          = derivNext (lMax + tc + 1) (lMax + tc - (m + 1)) d[m]! := by
        rw [getElem!_pos _ _ (by simp; omega)]
        simp [← hs]
      rw [this, derivNext_get _ _ _ _ (by omega)]
      rcases l with _ | l
      · simp only [if_true]
        rw [hv m (le_refl _) 1 (by omega), hv m (le_refl _) 0 (by omega)]
        simp [dRec]
      · have h1 : l + 1 ≤ lMax + tc - (m + 1) := by omega
        simp only [Nat.succ_ne_zero, if_false, h1, if_true, Nat.add_sub_cancel]
        rw [hv m (le_refl _) l (by omega), hv m (le_refl _) (l + 1 + 1) (by omega), hv m (le_refl _) (l + 1) (by omega)]
        simp [dRec]

/-- `dK[ix][n][l]` is the recurrence applied n times to the row `K[ix][·]`, for every n ≤ TAYLOR_CUT and every l the Taylor
evaluation can read (l + n ≤ lMax + TAYLOR_CUT) -/
theorem derivRows_spec (lMax tc : ℕ) (krow : Array ℝ) :
    (derivRows lMax tc krow).size = tc + 1 ∧
    ∀ n ≤ tc, ∀ l, l + n ≤ lMax + tc → ((derivRows lMax tc krow)[n]!)[l]! = dRec (fun l => krow[l]!) n l :=
  derivRows_foldl lMax tc krow tc (le_refl _)

end Ecpint.C14c
