/- C09 (part b) — the angular tables a generated class reads do not depend on the configured maximum angular momentum:
   an engine (and the generator) built with a larger MAX_L holds the same numbers at the entries both have.
   Definitions: Model/Angular.lean (bit for bit with angular.cpp). -/
import Ecpint.Model.Angular
namespace Ecpint.C09
open Ecpint Ecpint.Angular

/-- the only place the table limit enters `makeW` is `min(maxLam, k+l+m)`: two limits that both cover the monomial's degree
select the same entries -/
theorem wWritten_limit_irrelevant (M M' k l m lam idx : Nat) (h : k + l + m ≤ M) (h' : k + l + m ≤ M') :
    wWritten M k l m lam idx = wWritten M' k l m lam idx := by
  unfold wWritten
  rw [Nat.min_eq_right h, Nat.min_eq_right h']

/-- … and hold the same value there -/
theorem wEntry_limit_irrelevant {α : Type} [Flt α] (U : Nat → Nat → Nat → Nat → Nat → α) (P : Nat → Nat → Nat → α)
    (M M' k l m lam idx : Nat) (h : k + l + m ≤ M) (h' : k + l + m ≤ M') :
    wEntry U P M k l m lam idx = wEntry U P M' k l m lam idx := by
  unfold wEntry
  rw [wWritten_limit_irrelevant M M' k l m lam idx h h']

end Ecpint.C09
