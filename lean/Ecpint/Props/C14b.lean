/-
C14b — the real function behind `BesselFunction`: K_l(z) = e^{-z} i_l(z) over ℝ, defined by the power series the code
tabulates, with the facts that tie the formulas of Ecpint/Model/Bessel.lean to it.
-/
import Ecpint.Model.Bessel
import Ecpint.Props.C14
import Ecpint.Lemmas.BesselReal
import Mathlib.Analysis.SpecialFunctions.Trigonometric.Series
import Mathlib.Analysis.SpecialFunctions.Trigonometric.DerivHyp
import Mathlib.Analysis.SpecialFunctions.ExpDeriv
import Mathlib.Analysis.Calculus.IteratedDeriv.Defs
import Mathlib.Analysis.Calculus.Deriv.Mul
import Mathlib.Analysis.Calculus.Deriv.Inv
import Mathlib.Analysis.Calculus.Deriv.Comp
import Mathlib.Analysis.Complex.ExponentialBounds
import Mathlib.Tactic.NormNum.NatFactorial
import Mathlib.Tactic.IntervalCases

namespace Ecpint.C14b
open scoped Nat
open Ecpint.BesselReal

/-! ## Stage 1: the power series -/

/-- term j of the power series of i_l -/
noncomputable def iTerm (l j : ℕ) (z : ℝ) : ℝ := z ^ l * ((z ^ 2 / 2) ^ j / (j ! : ℝ) / (((2 * l + 2 * j + 1)‼ : ℕ) : ℝ))

noncomputable def sphI (l : ℕ) (z : ℝ) : ℝ := ∑' j, iTerm l j z

theorem iTerm_eq (l j : ℕ) (z : ℝ) : iTerm l j z = z ^ l * gTerm l j (z ^ 2 / 2) := rfl

theorem iTerm_summable (l : ℕ) (z : ℝ) : Summable (iTerm l · z) :=
  (gTerm_summable l (z ^ 2 / 2)).mul_left (z ^ l)

/-- i_l(z) = z^l G_l(z²/2) -/
theorem sphI_eq_G (l : ℕ) (z : ℝ) : sphI l z = z ^ l * G l (z ^ 2 / 2) := by
  unfold sphI G
  simp only [iTerm_eq]
  exact tsum_mul_left

theorem fac_odd (n : ℕ) : (((2 * n + 1)! : ℕ) : ℝ) = 2 ^ n * ((n ! : ℕ) : ℝ) * (((2 * n + 1)‼ : ℕ) : ℝ) := by
  rw [Nat.factorial_eq_mul_doubleFactorial, Nat.doubleFactorial_two_mul]
  push_cast
  ring

theorem sphI_zero (z : ℝ) (hz : z ≠ 0) : sphI 0 z = Real.sinh z / z := by
  have h := (Real.hasSum_sinh z).div_const z
  have h' : HasSum (iTerm 0 · z) (Real.sinh z / z) := by
    refine h.congr_fun (fun n => ?_)
    simp only [iTerm, pow_zero, one_mul, Nat.mul_zero, Nat.zero_add]
    rw [fac_odd, div_pow, ← pow_mul]
    have h1 := (fac_pos n).ne'
    have h2 := (dfac_pos (2 * n + 1)).ne'
    field_simp
    ring
  exact h'.tsum_eq

/-! ## Stage 2: recurrence and derivative -/

theorem sphI_rec (l : ℕ) (hl : 1 ≤ l) (z : ℝ) (hz : z ≠ 0) :
    sphI (l - 1) z - sphI (l + 1) z = (2 * l + 1) / z * sphI l z := by
  obtain ⟨m, rfl⟩ := Nat.exists_eq_add_of_le' hl
  have h := G_rec m (z ^ 2 / 2)
  simp only [Nat.add_sub_cancel, sphI_eq_G]
  have e : G m (z ^ 2 / 2) = (2 * (m : ℝ) + 3) * G (m + 1) (z ^ 2 / 2) + 2 * (z ^ 2 / 2) * G (m + 2) (z ^ 2 / 2) := by
    linarith
  rw [e]
  push_cast
  field_simp
  ring

/-- derivative in the G form (all l, all z) -/
theorem sphI_hasDerivAt_G (l : ℕ) (z : ℝ) :
    HasDerivAt (sphI l)
      ((l : ℝ) * z ^ (l - 1) * G l (z ^ 2 / 2) + z ^ l * (G (l + 1) (z ^ 2 / 2) * z)) z := by
  have e : sphI l = fun z => z ^ l * G l (z ^ 2 / 2) := funext (sphI_eq_G l)
  rw [e]
  have h1 : HasDerivAt (fun z : ℝ => z ^ 2 / 2) z z := by
    have := (hasDerivAt_pow 2 z).div_const 2
    simpa using this
  have h2 : HasDerivAt (fun z : ℝ => G l (z ^ 2 / 2)) (G (l + 1) (z ^ 2 / 2) * z) z :=
    HasDerivAt.comp (h₂ := G l) (h := fun z : ℝ => z ^ 2 / 2) z (G_hasDerivAt l (z ^ 2 / 2)) h1
  exact (hasDerivAt_pow l z).mul h2

theorem sphI_hasDerivAt_zero (z : ℝ) : HasDerivAt (sphI 0) (sphI 1 z) z := by
  have h := sphI_hasDerivAt_G 0 z
  convert h using 1
  rw [sphI_eq_G]
  simp
  ring

theorem sphI_one (z : ℝ) (hz : z ≠ 0) : sphI 1 z = (z * Real.cosh z - Real.sinh z) / z ^ 2 := by
  have h1 : HasDerivAt (sphI 0) (sphI 1 z) z := sphI_hasDerivAt_zero z
  have h2 : HasDerivAt (fun z => Real.sinh z / z) ((Real.cosh z * z - Real.sinh z * 1) / z ^ 2) z :=
    (Real.hasDerivAt_sinh z).div (hasDerivAt_id z) hz
  have h3 : sphI 0 =ᶠ[nhds z] fun z => Real.sinh z / z := by
    filter_upwards [isOpen_ne.mem_nhds hz] with y hy
    exact sphI_zero y hy
  have := h1.unique (h2.congr_of_eventuallyEq h3)
  rw [this]
  ring

theorem sphI_at_zero (l : ℕ) : sphI l 0 = if l = 0 then 1 else 0 := by
  rw [sphI_eq_G]
  split_ifs with h
  · subst h
    simp [G_at_zero]
  · simp [zero_pow h]

theorem sphI_hasDerivAt (l : ℕ) (hl : 1 ≤ l) (z : ℝ) :
    HasDerivAt (sphI l) ((l * sphI (l - 1) z + (l + 1) * sphI (l + 1) z) / (2 * l + 1)) z := by
  obtain ⟨m, rfl⟩ := Nat.exists_eq_add_of_le' hl
  have h := sphI_hasDerivAt_G (m + 1) z
  convert h using 1
  have hr := G_rec m (z ^ 2 / 2)
  have e : G m (z ^ 2 / 2) = (2 * (m : ℝ) + 3) * G (m + 1) (z ^ 2 / 2) + 2 * (z ^ 2 / 2) * G (m + 2) (z ^ 2 / 2) := by
    linarith
  simp only [Nat.add_sub_cancel, sphI_eq_G]
  rw [e]
  have h3 : (2 * ((m + 1 : ℕ) : ℝ) + 1) ≠ 0 := by positivity
  push_cast at h3 ⊢
  field_simp
  ring

/-! ## Stage 3: the scaled function and the code's derivative recurrence -/

noncomputable def K (l : ℕ) (z : ℝ) : ℝ := Real.exp (-z) * sphI l z

theorem hasDerivAt_exp_neg (z : ℝ) : HasDerivAt (fun z : ℝ => Real.exp (-z)) (-Real.exp (-z)) z := by
  have := (Real.hasDerivAt_exp (-z)).comp z (hasDerivAt_neg z)
  simpa [Function.comp_def] using this

/-- at z = 0 (the value the `z <= 0` branch returns): K_0 = 1, K_l = 0 for l > 0 -/
theorem K_at_zero (l : ℕ) : K l 0 = if l = 0 then 1 else 0 := by
  rw [K, sphI_at_zero]; simp

/-- `row[0] = prev[1] - prev[0]` of derivRows -/
theorem K_hasDerivAt_zero (z : ℝ) : HasDerivAt (K 0) (K 1 z - K 0 z) z := by
  have h : HasDerivAt (K 0) _ z := (hasDerivAt_exp_neg z).mul (sphI_hasDerivAt_zero z)
  exact h.congr_deriv (by simp only [K]; ring)

theorem K_hasDerivAt (l : ℕ) (hl : 1 ≤ l) (z : ℝ) :
    HasDerivAt (K l) (Ecpint.Bessel.recStep l (K (l - 1) z) (K (l + 1) z) (K l z)) z := by
  have h : HasDerivAt (K l) _ z := (hasDerivAt_exp_neg z).mul (sphI_hasDerivAt l hl z)
  rw [Ecpint.C14.recStep_spec]
  exact h.congr_deriv (by simp only [K]; ring)

/-- what `derivRows` computes from an exact row: dSpec n l z -/
noncomputable def dSpec : ℕ → ℕ → ℝ → ℝ
  | 0, l, z => K l z
  | n + 1, 0, z => dSpec n 1 z - dSpec n 0 z
  | n + 1, l + 1, z => Ecpint.Bessel.recStep (l + 1) (dSpec n l z) (dSpec n (l + 2) z) (dSpec n (l + 1) z)

theorem dSpec_zero (l : ℕ) : dSpec 0 l = K l := by
  funext z; rw [dSpec]

theorem dSpec_hasDerivAt (n l : ℕ) (z : ℝ) : HasDerivAt (dSpec n l) (dSpec (n + 1) l z) z := by
  induction n generalizing l z with
  | zero =>
    rw [dSpec_zero]
    cases l with
    | zero =>
      have := K_hasDerivAt_zero z
      simpa [dSpec] using this
    | succ l =>
      have := K_hasDerivAt (l + 1) (Nat.succ_le_succ (Nat.zero_le l)) z
      simpa [dSpec] using this
  | succ n ih =>
    cases l with
    | zero =>
      have e : dSpec (n + 1) 0 = fun z => dSpec n 1 z - dSpec n 0 z := by funext z; rw [dSpec]
      rw [e, dSpec]
      exact (ih 1 z).sub (ih 0 z)
    | succ l =>
      have e : dSpec (n + 1) (l + 1) = fun z =>
          Ecpint.Bessel.recStep (l + 1) (dSpec n l z) (dSpec n (l + 2) z) (dSpec n (l + 1) z) := by
        funext z; rw [dSpec]
      rw [e, dSpec]
      unfold Ecpint.Bessel.recStep
      exact (((ih l z).const_mul _).add ((ih (l + 2) z).const_mul _)).sub (ih (l + 1) z)

theorem iteratedDeriv_K_fun (n l : ℕ) : iteratedDeriv n (K l) = dSpec n l := by
  induction n with
  | zero => rw [iteratedDeriv_zero, dSpec_zero]
  | succ n ih =>
    rw [iteratedDeriv_succ, ih]
    funext z
    exact (dSpec_hasDerivAt n l z).deriv

theorem iteratedDeriv_K (n l : ℕ) (z : ℝ) : iteratedDeriv n (K l) z = dSpec n l z := by
  rw [iteratedDeriv_K_fun]

/-! ## Stage 4: large arguments -/

theorem K_rec (l : ℕ) (z : ℝ) (hz : z ≠ 0) :
    K (l + 2) z = K l z - (2 * (l : ℝ) + 3) / z * K (l + 1) z := by
  have h := sphI_rec (l + 1) (Nat.succ_le_succ (Nat.zero_le l)) z hz
  simp only [Nat.add_sub_cancel] at h
  have e : sphI (l + 2) z = sphI l z - (2 * (l : ℝ) + 3) / z * sphI (l + 1) z := by
    have : sphI (l + 1 + 1) z = sphI (l + 2) z := rfl
    rw [this] at h
    push_cast at h
    have e3 : (2 * ((l : ℝ) + 1) + 1) = 2 * (l : ℝ) + 3 := by ring
    rw [e3] at h
    linarith
  simp only [K]
  rw [e]
  ring

theorem exp_neg_two_mul (z : ℝ) : Real.exp (-2 * z) = (Real.exp z)⁻¹ ^ 2 := by
  rw [← Real.exp_neg, ← Real.exp_nat_mul]
  congr 1
  push_cast
  ring

/-- the asymptotic polynomial is exact up to an e^{-2z} term -/
theorem K_large (l : ℕ) (z : ℝ) (hz : 0 < z) :
    K l z = Ecpint.Bessel.largeAll (1 / (2 * z)) l
            + (-1) ^ l * Real.exp (-2 * z) * Ecpint.Bessel.largeAll (-(1 / (2 * z))) l := by
  have hz0 : z ≠ 0 := hz.ne'
  have he : Real.exp z ≠ 0 := (Real.exp_pos z).ne'
  induction l using Nat.twoStepInduction with
  | zero =>
    rw [largeAll_zero, largeAll_zero, K, sphI_zero z hz0, Real.sinh_eq, exp_neg_two_mul, Real.exp_neg]
    field_simp
    ring
  | one =>
    rw [largeAll_one, largeAll_one, K, sphI_one z hz0, Real.sinh_eq, Real.cosh_eq, exp_neg_two_mul, Real.exp_neg]
    field_simp
    ring
  | more l ih0 ih1 =>
    rw [K_rec l z hz0, ih0, ih1, largeAll_rec (1 / (2 * z)) l, largeAll_rec (-(1 / (2 * z))) l]
    field_simp
    ring

/-- accuracy of the `z > 16` branch, which uses the polynomial without the second term -/
theorem K_large_error (l : ℕ) (z : ℝ) (hz : 16 < z) :
    |K l z - Ecpint.Bessel.largeAll (1 / (2 * z)) l|
      ≤ Real.exp (-32) * |Ecpint.Bessel.largeAll (-(1 / (2 * z))) l| := by
  rw [K_large l z (by linarith)]
  have e : Ecpint.Bessel.largeAll (1 / (2 * z)) l
      + (-1) ^ l * Real.exp (-2 * z) * Ecpint.Bessel.largeAll (-(1 / (2 * z))) l
      - Ecpint.Bessel.largeAll (1 / (2 * z)) l
      = (-1) ^ l * Real.exp (-2 * z) * Ecpint.Bessel.largeAll (-(1 / (2 * z))) l := by ring
  rw [e, abs_mul, abs_mul, abs_pow, abs_neg, abs_one, one_pow, one_mul, abs_of_pos (Real.exp_pos _)]
  apply mul_le_mul_of_nonneg_right _ (abs_nonneg _)
  apply Real.exp_le_exp.mpr
  linarith

/-- the polynomial of the neglected term at v = 1/32, for the orders the library initialises (l ≤ 3·MAX_L = 15) -/
theorem Q_le (l : ℕ) (hl : l ≤ 15) :
    (1 / 32 : ℝ) * ∑ k ∈ Finset.range (l + 1), aCoef l k * (1 / 32 : ℝ) ^ k ≤ 31 := by
  interval_cases l <;>
  · simp only [Finset.sum_range_succ, Finset.sum_range_zero, aCoef]
    norm_num [Nat.factorial]

theorem exp_neg_32_lt : Real.exp (-32) < 1 / (2.7 : ℝ) ^ 32 := by
  have h : (2.7 : ℝ) ^ 32 < Real.exp 32 := by
    have h1 := Real.exp_one_gt_d9
    have h2 : (2.7 : ℝ) < Real.exp 1 := lt_trans (by norm_num) h1
    calc (2.7 : ℝ) ^ 32 < (Real.exp 1) ^ 32 := pow_lt_pow_left₀ h2 (by norm_num) (by norm_num)
      _ = Real.exp 32 := by rw [← Real.exp_nat_mul]; norm_num
  rw [Real.exp_neg, inv_eq_one_div]
  exact one_div_lt_one_div_of_lt (by positivity) h

theorem largeAll_neg_abs_le (l : ℕ) (hl : l ≤ 15) (z : ℝ) (hz : 16 < z) :
    |Ecpint.Bessel.largeAll (-(1 / (2 * z))) l| ≤ 31 := by
  have hv0 : 0 < 1 / (2 * z) := by positivity
  have hv : 1 / (2 * z) ≤ 1 / 32 := one_div_le_one_div_of_le (by norm_num) (by linarith)
  have hs : 0 ≤ ∑ k ∈ Finset.range (l + 1), aCoef l k * (1 / (2 * z)) ^ k :=
    Finset.sum_nonneg (fun k _ => mul_nonneg (aCoef_nonneg l k) (pow_nonneg hv0.le k))
  rw [largeAll_eq_sum, neg_neg, abs_mul, abs_neg, abs_of_pos hv0, abs_of_nonneg hs]
  refine le_trans ?_ (Q_le l hl)
  refine mul_le_mul hv (Finset.sum_le_sum fun k _ => ?_) hs (by norm_num)
  exact mul_le_mul_of_nonneg_left (pow_le_pow_left₀ hv0.le hv k) (aCoef_nonneg l k)

/-- for every order the library initialises (l ≤ 3·MAX_L = 15), dropping the e^{-2z} term in the z > 16 branch
costs less than 1e-12 in absolute terms -/
theorem K_large_error_numeric (l : ℕ) (hl : l ≤ 15) (z : ℝ) (hz : 16 < z) :
    |K l z - Ecpint.Bessel.largeAll (1 / (2 * z)) l| < 1 / 10 ^ 12 := by
  calc |K l z - Ecpint.Bessel.largeAll (1 / (2 * z)) l|
      ≤ Real.exp (-32) * |Ecpint.Bessel.largeAll (-(1 / (2 * z))) l| := K_large_error l z hz
    _ ≤ Real.exp (-32) * 31 := mul_le_mul_of_nonneg_left (largeAll_neg_abs_le l hl z hz) (Real.exp_pos _).le
    _ < 1 / (2.7 : ℝ) ^ 32 * 31 := mul_lt_mul_of_pos_right exp_neg_32_lt (by norm_num)
    _ < 1 / 10 ^ 12 := by norm_num

/-! ## Stage 5: small arguments -/

/-- the small-argument formula `(1 − z) z^l/(2l+1)!!` against K_l(z), for 0 ≤ z ≤ 1 -/
theorem K_small (l : ℕ) (z : ℝ) (hz0 : 0 ≤ z) (hz1 : z ≤ 1) :
    |K l z - Ecpint.Bessel.smallAll z l| ≤ 2 * z ^ (l + 2) := by
  rw [Ecpint.C14.smallAll_closed, K, sphI_eq_G]
  have hdd1 := dfac_ge_one (2 * l + 1)
  have hdd0 := dfac_pos (2 * l + 1)
  have hw0 : 0 ≤ z ^ 2 / 2 := by positivity
  have hw1 : z ^ 2 / 2 ≤ 1 := by nlinarith
  have hg := G_sub_le l (z ^ 2 / 2) hw0
  have hexp1 : Real.exp (z ^ 2 / 2) - 1 ≤ z ^ 2 := by
    have := Real.abs_exp_sub_one_le (x := z ^ 2 / 2) (by rw [abs_of_nonneg hw0]; exact hw1)
    rw [abs_of_nonneg hw0] at this
    have h2 := le_abs_self (Real.exp (z ^ 2 / 2) - 1)
    linarith
  have hexp2 : |Real.exp (-z) - 1 - (-z)| ≤ (-z) ^ 2 :=
    Real.abs_exp_sub_one_sub_id_le (by rw [abs_neg, abs_of_nonneg hz0]; exact hz1)
  have hexp3 : |Real.exp (-z)| ≤ 1 := by
    rw [abs_of_pos (Real.exp_pos _)]
    exact Real.exp_le_one_iff.mpr (by linarith)
  set dd : ℝ := (((2 * l + 1)‼ : ℕ) : ℝ) with hdd
  set g : ℝ := G l (z ^ 2 / 2) with hgdef
  have key : Real.exp (-z) * (z ^ l * g) - (1 - z) * z ^ l / dd
      = z ^ l * ((Real.exp (-z) - 1 - (-z)) / dd + Real.exp (-z) * (g - 1 / dd)) := by
    field_simp
    ring
  rw [key, abs_mul, abs_of_nonneg (pow_nonneg hz0 l)]
  have hA : |(Real.exp (-z) - 1 - (-z)) / dd| ≤ z ^ 2 := by
    rw [abs_div, abs_of_pos hdd0]
    calc |Real.exp (-z) - 1 - (-z)| / dd ≤ |Real.exp (-z) - 1 - (-z)| := div_le_self (abs_nonneg _) hdd1
      _ ≤ (-z) ^ 2 := hexp2
      _ = z ^ 2 := by ring
  have hB : |Real.exp (-z) * (g - 1 / dd)| ≤ z ^ 2 := by
    rw [abs_mul]
    calc |Real.exp (-z)| * |g - 1 / dd| ≤ 1 * (Real.exp (z ^ 2 / 2) - 1) :=
          mul_le_mul hexp3 hg (abs_nonneg _) zero_le_one
      _ ≤ z ^ 2 := by linarith
  calc z ^ l * |(Real.exp (-z) - 1 - (-z)) / dd + Real.exp (-z) * (g - 1 / dd)|
      ≤ z ^ l * (z ^ 2 + z ^ 2) :=
        mul_le_mul_of_nonneg_left (le_trans (abs_add_le _ _) (add_le_add hA hB)) (pow_nonneg hz0 l)
    _ = 2 * z ^ (l + 2) := by ring

/-- below the threshold of the small-argument branch (SMALL = 1e-7) the error is below 1e-12 for every order -/
theorem K_small_error (l : ℕ) (z : ℝ) (hz0 : 0 < z) (hz1 : z < 1 / 10 ^ 7) :
    |K l z - Ecpint.Bessel.smallAll z l| ≤ 2 * z ^ (l + 2) ∧ 2 * z ^ (l + 2) < 1 / 10 ^ 12 := by
  have hz1' : z ≤ 1 := by linarith [show (1 : ℝ) / 10 ^ 7 ≤ 1 by norm_num]
  refine ⟨K_small l z hz0.le hz1', ?_⟩
  have h1 : z ^ (l + 2) = z ^ l * z ^ 2 := by ring
  have h2 : z ^ l ≤ 1 := pow_le_one₀ hz0.le hz1'
  have h3 : z ^ 2 < (1 / 10 ^ 7) ^ 2 := pow_lt_pow_left₀ hz1 hz0.le (by norm_num)
  have h4 : z ^ l * z ^ 2 ≤ 1 * z ^ 2 := mul_le_mul_of_nonneg_right h2 (by positivity)
  rw [h1]
  have h5 : ((1 : ℝ) / 10 ^ 7) ^ 2 * 2 < 1 / 10 ^ 12 := by norm_num
  linarith


end Ecpint.C14b
