/- C08 — translation invariance: the pipeline model (Model/ShellPair.lean) reads the three centres only through the
   differences formed by `mkData`.  Rotation / permutation covariance is NOT proved (see DESIGN.md). -/
import Ecpint.Model.ShellPair
namespace Ecpint.C08
open Ecpint Ecpint.ShellPair Ecpint.Contraction

variable {α : Type} [Flt α]

def shift3 (c t : α × α × α) : α × α × α := (c.1 + t.1, c.2.1 + t.2.1, c.2.2 + t.2.2)

/-- move an ECP / a shell by the vector t -/
def Ecp.translate (U : Ecp α) (t : α × α × α) : Ecp α := { U with center := shift3 U.center t }
def Shell.translate (s : Shell α) (t : α × α × α) : Shell α := { s with center := shift3 s.center t }

/-- with exact subtraction, the data `compute_shell_pair` derives from the centres is unchanged by a common translation -/
theorem mkData_translate (hsub : ∀ a c t : α, (a + t) - (c + t) = a - c)
    (U : Ecp α) (sA sB : Shell α) (t : α × α × α) (shiftA shiftB : Int) :
    mkData (Ecp.translate U t) (Shell.translate sA t) (Shell.translate sB t) shiftA shiftB = mkData U sA sB shiftA shiftB := by
  simp [mkData, Ecp.translate, Shell.translate, shift3, hsub]

/-- everything else the routine uses of the ECP and the shells is position-free -/
theorem atOrigin_translate_ecp (U : Ecp α) (t : α × α × α) : (Ecp.translate U t).atOrigin = U.atOrigin := by
  simp [Ecp.translate, Ecp.atOrigin]

theorem atOrigin_translate_shell (s : Shell α) (t : α × α × α) : (Shell.translate s t).atOrigin = s.atOrigin := by
  simp [Shell.translate, Shell.atOrigin]

/-- C08 (translation part): with exact subtraction, translating all three centres by a common vector leaves the whole
block unchanged — every switch setting, every class, every branch -/
theorem computeShellPair_translate (hsub : ∀ a c t : α, (a + t) - (c + t) = a - c)
    (E : Engine α) (sw : Switches) (pwf : Nat → α → α) (pw : α → Nat → α) (maxPow : Nat) (euler sinh1 : α)
    (classes : Nat → Nat → Nat → Option (Gen.QClass × Option (Array (UTerm α))))
    (U : Ecp α) (sA sB : Shell α) (t : α × α × α) (shiftA shiftB : Int) :
    computeShellPair E sw pwf pw maxPow euler sinh1 classes (Ecp.translate U t) (Shell.translate sA t) (Shell.translate sB t) shiftA shiftB
      = computeShellPair E sw pwf pw maxPow euler sinh1 classes U sA sB shiftA shiftB := by
  unfold computeShellPair
  rw [mkData_translate hsub, atOrigin_translate_ecp, atOrigin_translate_shell, atOrigin_translate_shell]

/-- the block depends on the centres only through `mkData`: two inputs with the same position-free parts and the same
centre differences give the same block (no exact-arithmetic hypothesis) -/
theorem computeShellPair_of_mkData_eq
    (E : Engine α) (sw : Switches) (pwf : Nat → α → α) (pw : α → Nat → α) (maxPow : Nat) (euler sinh1 : α)
    (classes : Nat → Nat → Nat → Option (Gen.QClass × Option (Array (UTerm α))))
    (U U' : Ecp α) (sA sA' sB sB' : Shell α) (shiftA shiftB : Int)
    (hd : mkData U sA sB shiftA shiftB = mkData U' sA' sB' shiftA shiftB)
    (hU : U.atOrigin = U'.atOrigin) (hA : sA.atOrigin = sA'.atOrigin) (hB : sB.atOrigin = sB'.atOrigin) :
    computeShellPair E sw pwf pw maxPow euler sinh1 classes U sA sB shiftA shiftB
      = computeShellPair E sw pwf pw maxPow euler sinh1 classes U' sA' sB' shiftA shiftB := by
  unfold computeShellPair
  rw [hd, hU, hA, hB]

end Ecpint.C08
