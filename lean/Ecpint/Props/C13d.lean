/- C13 (part d) — the angular tables W (type 1) and Ω (type 2) of `AngularIntegral` are sphere integrals of
   monomial × (Cartesian form of the model's harmonics).  Definitions: Ecpint/Model/Angular.lean.
   Stage 1: written W entries, any coefficient table.  Stage 2: one `makeOmega` iteration, any tables.
   Stage 3: selection rules of `uklm`; the model's own W and Ω tables, by parity alone: this needs lam ≤ k+l+m resp. the
   triangle condition (below the degree of the harmonic the integral vanishes by harmonicity, not parity; the `_core`
   theorems isolate that hypothesis, Ecpint/Props/C13e.lean discharges it).  Stage 4: orders ≤ 2 explicitly, orthonormal. -/
import Ecpint.Props.C13c
import Mathlib.Analysis.SpecialFunctions.Complex.Arg
import Mathlib.Analysis.SpecialFunctions.Trigonometric.Basic
import Mathlib.Analysis.SpecialFunctions.Log.Basic
import Mathlib.Algebra.Order.Floor.Ring

namespace Ecpint.C13d
open MeasureTheory Set Metric Real
open Ecpint Ecpint.Angular Ecpint.C13 Ecpint.C13c

/-- the real numbers as scalars of the numerical pipeline -/
noncomputable instance instFltReal : Ecpint.Flt ℝ :=
  { exp := Real.exp, log := Real.log, sqrt := Real.sqrt, sin := Real.sin, cos := Real.cos,
    atan2 := fun y x => Complex.arg ⟨x, y⟩, abs := fun x => |x|, pi := Real.pi,
    floorNat := fun x => ⌊x⌋₊, ofRat := fun n d => (n : ℝ) / (d : ℝ),
    decLt := fun _ _ => Classical.propDecidable _, decLe := fun _ _ => Classical.propDecidable _ }

example (a b : ℝ) (n : ℕ) : (Flt.toAdd.add a b) * ((n : ℕ) : ℝ) = (n : ℝ) * b + n * a := by
  show (a + b) * (n : ℝ) = _
  ring

theorem pijk_real (i j k : ℕ) : pijk (α := ℝ) i j k = pijkWith (4 * Real.pi) i j k := by
  unfold pijk
  norm_num
  rfl

/-- the Cartesian form of the harmonic S_{lam, ±mu} with coefficient table `U` (c = 0 cos-type, c = 1 sin-type) -/
noncomputable def SU (U : ℕ → ℕ → ℕ → ℕ → ℕ → ℝ) (lam mu c : ℕ) (v : E3) : ℝ :=
  ∑ i ∈ Finset.range (lam + 1), ∑ j ∈ Finset.range (lam - i + 1),
    U lam mu i j c * v 0 ^ i * v 1 ^ j * v 2 ^ (lam - i - j)

/-- the sphere integral of a monomial -/
noncomputable def monoInt (a b c : ℕ) : ℝ := ∫ u : sphere (0 : E3) 1, mono a b c u.1 ∂σ

theorem foldl_add_sum (f : ℕ → ℝ) (n : ℕ) (w : ℝ) :
    (List.range n).foldl (fun w i => w + f i) w = w + ∑ i ∈ Finset.range n, f i := by
  induction n with
  | zero => simp
  | succ n ih =>
    rw [List.range_succ, List.foldl_append, ih, Finset.sum_range_succ]
    simp only [List.foldl_cons, List.foldl_nil]
    ring

theorem foldl_ite_add_sum (c : ℕ → Prop) [DecidablePred c] (f : ℕ → ℝ) (n : ℕ) (w : ℝ) :
    (List.range n).foldl (fun w j => if c j then w + f j else w) w
      = w + ∑ j ∈ Finset.range n, if c j then f j else 0 := by
  rw [← foldl_add_sum]
  congr 1
  funext w j
  split_ifs <;> simp

theorem pijkWith_symm {K : Type} [Field K] [CharZero K] (p : K) (i j k : ℕ) :
    pijkWith p i j k = pijkWith p j i k ∧ pijkWith p i j k = pijkWith p i k j ∧
    pijkWith p i j k = pijkWith p k j i ∧ pijkWith p i j k = pijkWith p j k i ∧
    pijkWith p i j k = pijkWith p k i j := by
  have h := pijkWith_perm p
  refine ⟨(h i j k).1, (h i j k).2, ?_, ?_, ?_⟩
  · rw [(h i j k).1, (h j i k).2, (h j k i).1]
  · rw [(h i j k).1, (h j i k).2]
  · rw [(h i j k).2, (h i k j).1]

set_option linter.unusedTactic false in
set_option linter.unreachableTactic false in
/-- sorting the exponents first, as `makeW` does, does not change the value -/
theorem pijkWith_sort3 {K : Type} [Field K] [CharZero K] (p : K) (a b c : ℕ) :
    pijkWith p ((sort3 a b c).2.2 / 2) ((sort3 a b c).2.1 / 2) ((sort3 a b c).1 / 2)
      = pijkWith p (a / 2) (b / 2) (c / 2) := by
  obtain ⟨s1, s2, s3, s4, s5⟩ := pijkWith_symm p (a / 2) (b / 2) (c / 2)
  unfold sort3
  by_cases h1 : a ≤ b
  · by_cases h2 : b ≤ c
    · simp only [h1, h2, if_true]
      exact s3.symm
    · by_cases h3 : a ≤ c
      · simp only [h1, h2, h3, if_true, if_false]
        first | exact s1.symm | exact s2.symm | exact s3.symm | exact s4.symm | exact s5.symm
      · simp only [h1, h2, h3, if_true, if_false]
        first | exact s1.symm | exact s2.symm | exact s3.symm | exact s4.symm | exact s5.symm
  · by_cases h2 : a ≤ c
    · have h3 : b ≤ a := by omega
      simp only [h1, h2, h3, if_true, if_false]
      first | exact s1.symm | exact s2.symm | exact s3.symm | exact s4.symm | exact s5.symm
    · by_cases h3 : b ≤ c
      · simp only [h1, h2, h3, if_true, if_false]
        first | exact s1.symm | exact s2.symm | exact s3.symm | exact s4.symm | exact s5.symm
      · simp only [h1, h2, h3, if_false]

/-- every monomial integral is what `makeW` adds: 0 if an exponent is odd, `Pijk` of the halved sorted exponents otherwise -/
theorem monoInt_eq (a b d : ℕ) :
    monoInt a b d = if a % 2 + b % 2 + d % 2 = 0 then
      pijk (α := ℝ) ((sort3 a b d).2.2 / 2) ((sort3 a b d).2.1 / 2) ((sort3 a b d).1 / 2) else 0 := by
  unfold monoInt
  by_cases h : a % 2 + b % 2 + d % 2 = 0
  · rw [if_pos h, pijk_real, pijkWith_sort3]
    obtain ⟨i, rfl⟩ : ∃ i, a = 2 * i := ⟨a / 2, by omega⟩
    obtain ⟨j, rfl⟩ : ∃ j, b = 2 * j := ⟨b / 2, by omega⟩
    obtain ⟨k, rfl⟩ : ∃ k, d = 2 * k := ⟨d / 2, by omega⟩
    have := pijkWith_eq_sphere_integral i j k
    simp only [Nat.mul_div_cancel_left _ (show 0 < 2 by norm_num)]
    rw [this]
    rfl
  · rw [if_neg h]
    exact sphere_integral_odd a b d (by simp only [Nat.odd_iff]; omega)

theorem continuous_mono (a b c : ℕ) : Continuous fun u : sphere (0 : E3) 1 => mono a b c u.1 := by
  unfold mono
  fun_prop

theorem continuous_SU (U : ℕ → ℕ → ℕ → ℕ → ℕ → ℝ) (lam mu c : ℕ) :
    Continuous fun u : sphere (0 : E3) 1 => SU U lam mu c u.1 := by
  unfold SU
  fun_prop

theorem integrable_of_continuous {f : sphere (0 : E3) 1 → ℝ} (hf : Continuous f) : Integrable f σ :=
  hf.integrable_of_hasCompactSupport (HasCompactSupport.of_compactSpace f)

/-- linearity: the integral of monomial × S_U is the double sum of coefficient × monomial integral -/
theorem integral_mono_SU (U : ℕ → ℕ → ℕ → ℕ → ℕ → ℝ) (k l m lam mu c : ℕ) :
    ∫ u : sphere (0 : E3) 1, (u.1 0) ^ k * (u.1 1) ^ l * (u.1 2) ^ m * SU U lam mu c u.1 ∂σ
      = ∑ i ∈ Finset.range (lam + 1), ∑ j ∈ Finset.range (lam - i + 1),
          U lam mu i j c * monoInt (k + i) (l + j) (m + lam - i - j) := by
  unfold SU monoInt
  simp only [Finset.mul_sum]
  rw [integral_finsetSum _ (fun i _ => integrable_of_continuous (by fun_prop))]
  refine Finset.sum_congr rfl fun i hi => ?_
  rw [integral_finsetSum _ (fun j _ => integrable_of_continuous (by fun_prop))]
  refine Finset.sum_congr rfl fun j hj => ?_
  rw [← integral_const_mul]
  refine integral_congr_ae (.of_forall fun u => ?_)
  have e : m + lam - i - j = m + (lam - i - j) := by
    simp only [Finset.mem_range] at hi hj
    omega
  simp only [mono, e]
  ring

/-- **Stage 1**: every entry of the type-1 table that `makeW` writes is the sphere integral of the monomial times the
harmonic polynomial S_{lam, mu} of type c = l % 2 (cos-type for even l, sin-type for odd l), for ANY coefficient table U -/
theorem wEntry_eq_sphere_integral (U : ℕ → ℕ → ℕ → ℕ → ℕ → ℝ) (maxLam k l m lam idx mu : ℕ)
    (h : wWritten maxLam k l m lam idx = some mu) :
    wEntry U (pijk (α := ℝ)) maxLam k l m lam idx
      = ∫ u : sphere (0 : E3) 1, (u.1 0) ^ k * (u.1 1) ^ l * (u.1 2) ^ m * SU U lam mu (l % 2) u.1 ∂σ := by
  rw [integral_mono_SU]
  unfold wEntry
  rw [h]
  simp only []
  simp only [foldl_ite_add_sum, foldl_add_sum, zero_add]
  refine Finset.sum_congr rfl fun i _ => Finset.sum_congr rfl fun j _ => ?_
  rw [monoInt_eq]
  split_ifs <;> simp

theorem integrable_continuous_mul {f T : sphere (0 : E3) 1 → ℝ} (hf : Continuous f) (hT : Integrable T σ) :
    Integrable (fun u => f u * T u) σ := by
  obtain ⟨C, hC⟩ := (HasCompactSupport.of_compactSpace f).exists_bound_of_continuous hf
  exact hT.bdd_mul hf.aestronglyMeasurable (.of_forall hC)

/-- linearity again, with a further integrable factor T -/
theorem integral_mono_SU_mul (U : ℕ → ℕ → ℕ → ℕ → ℕ → ℝ) (T : sphere (0 : E3) 1 → ℝ) (hT : Integrable T σ)
    (k l m lam mu c : ℕ) :
    ∫ u : sphere (0 : E3) 1, (u.1 0) ^ k * (u.1 1) ^ l * (u.1 2) ^ m * SU U lam mu c u.1 * T u ∂σ
      = ∑ i ∈ Finset.range (lam + 1), ∑ j ∈ Finset.range (lam - i + 1),
          U lam mu i j c *
            ∫ u : sphere (0 : E3) 1, (u.1 0) ^ (k + i) * (u.1 1) ^ (l + j) * (u.1 2) ^ (m + lam - i - j) * T u ∂σ := by
  unfold SU
  simp only [Finset.mul_sum, Finset.sum_mul]
  rw [integral_finsetSum _ (fun i _ => integrable_finsetSum _ fun j _ =>
    integrable_continuous_mul (by fun_prop) hT)]
  refine Finset.sum_congr rfl fun i hi => ?_
  rw [integral_finsetSum _ (fun j _ => integrable_continuous_mul (by fun_prop) hT)]
  refine Finset.sum_congr rfl fun j hj => ?_
  rw [← integral_const_mul]
  refine integral_congr_ae (.of_forall fun u => ?_)
  have e : m + lam - i - j = m + (lam - i - j) := by
    simp only [Finset.mem_range] at hi hj
    omega
  simp only [e]
  ring

/-- **Stage 2** (the form used below): if the W entries one `makeOmega` iteration READS are the sphere integrals of
monomial × T, the value it accumulates is the sphere integral of monomial × S_{lam, mu} × T; the harmonic is of cos-type
for `om_plus`, of sin-type for `om_minus` (and `om_minus = om_plus` for mu = 0) -/
theorem omegaIter_eq_sphere_integral_of_reads (U : ℕ → ℕ → ℕ → ℕ → ℕ → ℝ) (Wf : ℕ → ℕ → ℕ → ℕ → ℕ → ℝ)
    (T : sphere (0 : E3) 1 → ℝ) (hT : Integrable T σ) (k l m rho sig lam mu : ℕ) (minus : Bool)
    (hW : ∀ i j, i ≤ lam → j ≤ lam - i → Wf (k + i) (l + j) (m + lam - i - j) rho sig
      = ∫ u : sphere (0 : E3) 1, (u.1 0) ^ (k + i) * (u.1 1) ^ (l + j) * (u.1 2) ^ (m + lam - i - j) * T u ∂σ) :
    omegaIter U Wf k l m rho sig lam mu minus
      = ∫ u : sphere (0 : E3) 1, (u.1 0) ^ k * (u.1 1) ^ l * (u.1 2) ^ m
          * SU U lam mu (if minus = true ∧ mu ≠ 0 then 1 else 0) u.1 * T u ∂σ := by
  rw [integral_mono_SU_mul U T hT]
  unfold omegaIter
  simp only [foldl_add_sum, zero_add]
  refine Finset.sum_congr rfl fun i hi => Finset.sum_congr rfl fun j hj => ?_
  simp only [Finset.mem_range] at hi hj
  rw [hW i j (by omega) (by omega)]

/-- **Stage 2**: with a W table that is, for ALL its arguments, the sphere integral of monomial × T(rho, sig) -/
theorem omegaIter_eq_sphere_integral (U : ℕ → ℕ → ℕ → ℕ → ℕ → ℝ) (Wf : ℕ → ℕ → ℕ → ℕ → ℕ → ℝ)
    (T : ℕ → ℕ → sphere (0 : E3) 1 → ℝ) (hT : ∀ rho sig, Integrable (T rho sig) σ)
    (hW : ∀ k l m rho sig, Wf k l m rho sig
      = ∫ u : sphere (0 : E3) 1, (u.1 0) ^ k * (u.1 1) ^ l * (u.1 2) ^ m * T rho sig u ∂σ)
    (k l m rho sig lam mu : ℕ) (minus : Bool) :
    omegaIter U Wf k l m rho sig lam mu minus
      = ∫ u : sphere (0 : E3) 1, (u.1 0) ^ k * (u.1 1) ^ l * (u.1 2) ^ m
          * SU U lam mu (if minus = true ∧ mu ≠ 0 then 1 else 0) u.1 * T rho sig u ∂σ :=
  omegaIter_eq_sphere_integral_of_reads U Wf (T rho sig) (hT rho sig) k l m rho sig lam mu minus
    fun _ _ _ _ => hW _ _ _ _ _

/-! ### Stage 3: the support of the model's own coefficients `uklm`, and the model's own tables -/

/-- the selection rules `uklm` encodes (for ANY factorial table): the coefficient of x^k y^l z^(lam-k-l) in S_{lam, ±mu}
vanishes unless k + l ≥ mu, k + l − mu is even, and l is even (cos-type, or mu = 0) resp. odd (sin-type, mu ≠ 0) -/
theorem uklm_ne_zero (fac : Array ℝ) (lam mu k l c : ℕ) (h : uklm fac lam mu k l c ≠ 0) :
    mu ≤ k + l ∧ (k + l - mu) % 2 = 0 ∧ (if mu = 0 ∨ c = 0 then l % 2 = 0 else l % 2 = 1) := by
  unfold uklm at h
  simp only [] at h
  rcases Nat.mod_two_eq_zero_or_one l with hl | hl
  · split_ifs at h with c1 c2 c3
    · exact ⟨c1.1, c1.2, by simp [c2, hl]⟩
    · exact ⟨c1.1, c1.2, by simp [c3, hl]⟩
    · exfalso; apply h; simp [hl]
    · exact absurd rfl h
  · split_ifs at h with c1 c2 c3
    · exfalso; apply h; simp [hl]
    · exfalso; apply h; simp [hl]
    · exact ⟨c1.1, c1.2, by simp [c2, c3, hl]⟩
    · exact absurd rfl h

/-- for mu = 0 there is one harmonic only: the sin-type slot holds a copy of the cos-type one -/
theorem uklm_mu_zero (fac : Array ℝ) (lam k l c : ℕ) : uklm fac lam 0 k l c = uklm fac lam 0 k l 0 := by
  unfold uklm
  simp

/-- the harmonic polynomial of the model stored at index `idx` = lam + (signed mu): S_{lam, idx − lam} -/
noncomputable def Sidx (fac : Array ℝ) (lam idx : ℕ) (v : E3) : ℝ :=
  SU (uklm fac) lam (if idx ≥ lam then idx - lam else lam - idx) (if idx < lam then 1 else 0) v

theorem continuous_Sidx (fac : Array ℝ) (lam idx : ℕ) : Continuous fun u : sphere (0 : E3) 1 => Sidx fac lam idx u.1 :=
  continuous_SU _ _ _ _

/-- the arithmetic of the parity argument -/
theorem unwritten_parity (maxLam k l m lam idx i j mu : ℕ) (h1 : lam ≤ maxLam) (h2 : lam ≤ k + l + m)
    (hi : i < lam + 1) (hj : j < lam - i + 1)
    (hmu : mu = if idx ≥ lam then idx - lam else lam - idx)
    (r1 : mu ≤ i + j) (r2 : (i + j - mu) % 2 = 0)
    (r3 : if mu = 0 ∨ (if idx < lam then 1 else 0) = 0 then j % 2 = 0 else j % 2 = 1)
    (hn : ¬ (lam % 2 = (k + l + m) % 2 ∧ lam ≤ min maxLam (k + l + m) ∧ mu % 2 = (k + l) % 2 ∧ mu ≤ lam ∧
        ((l % 2 = 0 ∧ idx = lam + mu) ∨ (l % 2 = 1 ∧ idx + mu = lam)))) :
    ¬ ((k + i) % 2 + (l + j) % 2 + (m + lam - i - j) % 2 = 0) := by
  intro hp
  apply hn
  by_cases hge : idx ≥ lam
  · have hlt : ¬ idx < lam := by omega
    simp only [hge, hlt, if_true, if_false, or_true] at hmu r3
    omega
  · have hlt : idx < lam := by omega
    have hmu0 : mu ≠ 0 := by rw [hmu]; simp only [hge, if_false]; omega
    simp only [hge, hlt, if_true, if_false, hmu0, one_ne_zero, or_self] at hmu r3
    omega

/-- **Stage 3a**: the entries `makeW` does not write are 0 in the table, and their sphere integral vanishes by parity
(an odd exponent in every monomial that has a non-zero coefficient) -/
theorem unwritten_integral_zero (fac : Array ℝ) (maxLam k l m lam idx : ℕ) (h1 : lam ≤ maxLam) (h2 : lam ≤ k + l + m)
    (h : wWritten maxLam k l m lam idx = none) :
    ∫ u : sphere (0 : E3) 1, (u.1 0) ^ k * (u.1 1) ^ l * (u.1 2) ^ m * Sidx fac lam idx u.1 ∂σ = 0 := by
  unfold Sidx
  rw [integral_mono_SU]
  refine Finset.sum_eq_zero fun i hi => Finset.sum_eq_zero fun j hj => ?_
  simp only [Finset.mem_range] at hi hj
  by_cases hU : uklm fac lam (if idx ≥ lam then idx - lam else lam - idx) i j (if idx < lam then 1 else 0) = 0
  · rw [hU, zero_mul]
  · obtain ⟨r1, r2, r3⟩ := uklm_ne_zero _ _ _ _ _ _ hU
    have hs := wWritten_spec maxLam k l m lam idx (if idx ≥ lam then idx - lam else lam - idx)
    rw [h] at hs
    have hn := (not_congr hs).mp (by simp)
    have hodd := unwritten_parity maxLam k l m lam idx i j _ h1 h2 hi hj rfl r1 r2 r3 hn
    rw [monoInt_eq, if_neg hodd, mul_zero]

/-- **Stage 3b**: the whole type-1 table of the model (written or not), for lam ≤ min(maxLam, k+l+m) -/
theorem wEntry_uklm_eq_sphere_integral (fac : Array ℝ) (maxLam k l m lam idx : ℕ) (h1 : lam ≤ maxLam)
    (h2 : lam ≤ k + l + m) :
    wEntry (uklm fac) (pijk (α := ℝ)) maxLam k l m lam idx
      = ∫ u : sphere (0 : E3) 1, (u.1 0) ^ k * (u.1 1) ^ l * (u.1 2) ^ m * Sidx fac lam idx u.1 ∂σ := by
  rcases hw : wWritten maxLam k l m lam idx with _ | mu
  · rw [unwritten_integral_zero fac maxLam k l m lam idx h1 h2 hw]
    unfold wEntry
    rw [hw]
  · rw [wEntry_eq_sphere_integral _ _ _ _ _ _ _ _ hw]
    obtain ⟨-, -, -, -, ⟨e1, e2⟩ | ⟨e1, e2⟩⟩ := (wWritten_spec _ _ _ _ _ _ _).mp hw
    · have hge : idx ≥ lam := by omega
      have hlt : ¬ idx < lam := by omega
      have e3 : idx - lam = mu := by omega
      unfold Sidx
      simp only [hge, hlt, if_true, if_false, e1, e3]
    · unfold Sidx
      rcases Nat.eq_zero_or_pos mu with hmu | hmu
      · have hge : idx ≥ lam := by omega
        have hlt : ¬ idx < lam := by omega
        have e3 : idx - lam = mu := by omega
        simp only [hge, hlt, if_true, if_false, e1, e3]
        subst hmu
        simp only [SU, uklm_mu_zero fac lam _ _ 1]
      · have hge : ¬ idx ≥ lam := by omega
        have hlt : idx < lam := by omega
        have e3 : lam - idx = mu := by omega
        simp only [hge, hlt, if_true, if_false, e1, e3]

/-- below the degree of the harmonic (k + l + m < lam) `makeW` writes nothing: the table holds 0 -/
theorem wEntry_low_degree (U : ℕ → ℕ → ℕ → ℕ → ℕ → ℝ) (P : ℕ → ℕ → ℕ → ℝ) (maxLam k l m lam idx : ℕ)
    (h : k + l + m < lam) : wEntry U P maxLam k l m lam idx = 0 := by
  have hw : wWritten maxLam k l m lam idx = none := by
    unfold wWritten
    simp only []
    rw [if_neg (by omega)]
  unfold wEntry
  rw [hw]

/-- the whole type-1 table of the model: for lam ≤ k + l + m by parity alone (Stage 3b); for k + l + m < lam the entry is 0
and equals the integral provided S_{lam} is orthogonal to that monomial of lower degree -/
theorem wEntry_uklm_core (fac : Array ℝ) (maxLam k l m lam idx : ℕ) (h1 : lam ≤ maxLam)
    (h : k + l + m < lam →
      ∫ u : sphere (0 : E3) 1, (u.1 0) ^ k * (u.1 1) ^ l * (u.1 2) ^ m * Sidx fac lam idx u.1 ∂σ = 0) :
    wEntry (uklm fac) (pijk (α := ℝ)) maxLam k l m lam idx
      = ∫ u : sphere (0 : E3) 1, (u.1 0) ^ k * (u.1 1) ^ l * (u.1 2) ^ m * Sidx fac lam idx u.1 ∂σ := by
  by_cases h2 : lam ≤ k + l + m
  · exact wEntry_uklm_eq_sphere_integral fac maxLam k l m lam idx h1 h2
  · rw [h (by omega), wEntry_low_degree _ _ _ _ _ _ _ _ (by omega)]

/-- one `makeOmega` iteration on the model's own tables -/
theorem omegaIter_model_core (fac : Array ℝ) (maxLam k l m rho sig lam mu : ℕ) (minus : Bool) (h1 : rho ≤ maxLam)
    (h : k + l + m + lam < rho → ∀ a b c, a + b + c = k + l + m + lam →
      ∫ u : sphere (0 : E3) 1, (u.1 0) ^ a * (u.1 1) ^ b * (u.1 2) ^ c * Sidx fac rho sig u.1 ∂σ = 0) :
    omegaIter (uklm fac) (wEntry (uklm fac) (pijk (α := ℝ)) maxLam) k l m rho sig lam mu minus
      = ∫ u : sphere (0 : E3) 1, (u.1 0) ^ k * (u.1 1) ^ l * (u.1 2) ^ m
          * SU (uklm fac) lam mu (if minus = true ∧ mu ≠ 0 then 1 else 0) u.1 * Sidx fac rho sig u.1 ∂σ := by
  refine omegaIter_eq_sphere_integral_of_reads (uklm fac) _ (fun u => Sidx fac rho sig u.1)
    (integrable_of_continuous (continuous_Sidx fac rho sig)) k l m rho sig lam mu minus fun i j hi hj => ?_
  exact wEntry_uklm_core fac maxLam _ _ _ rho sig h1 fun hlt => h (by omega) _ _ _ (by omega)

/-- **Stage 3c**: one `makeOmega` iteration on the model's own tables, inside the triangle rho ≤ k + l + m + lam:
the accumulated value is the sphere integral of monomial × S_{lam, ±mu} × S_{rho, sig − rho} -/
theorem omegaIter_model_eq_sphere_integral (fac : Array ℝ) (maxLam k l m rho sig lam mu : ℕ) (minus : Bool)
    (h1 : rho ≤ maxLam) (h2 : rho ≤ k + l + m + lam) :
    omegaIter (uklm fac) (wEntry (uklm fac) (pijk (α := ℝ)) maxLam) k l m rho sig lam mu minus
      = ∫ u : sphere (0 : E3) 1, (u.1 0) ^ k * (u.1 1) ^ l * (u.1 2) ^ m
          * SU (uklm fac) lam mu (if minus = true ∧ mu ≠ 0 then 1 else 0) u.1 * Sidx fac rho sig u.1 ∂σ :=
  omegaIter_model_core fac maxLam k l m rho sig lam mu minus h1 (fun hlt => absurd hlt (by omega))

/-- outside the triangle (k + l + m + lam < rho) the iteration reads unwritten entries only and accumulates 0 -/
theorem omegaIter_model_outside (U : ℕ → ℕ → ℕ → ℕ → ℕ → ℝ) (P : ℕ → ℕ → ℕ → ℝ) (maxLam k l m rho sig lam mu : ℕ)
    (minus : Bool) (h : k + l + m + lam < rho) :
    omegaIter U (wEntry U P maxLam) k l m rho sig lam mu minus = 0 := by
  unfold omegaIter
  simp only [foldl_add_sum, zero_add]
  refine Finset.sum_eq_zero fun i hi => Finset.sum_eq_zero fun j hj => ?_
  simp only [Finset.mem_range] at hi hj
  rw [wEntry_low_degree _ _ _ _ _ _ _ _ (by omega), mul_zero]

theorem SU_signed (fac : Array ℝ) (b ib : ℕ) (v : E3) :
    SU (uklm fac) b (if ib ≥ b then ib - b else b - ib)
      (if decide (ib < b) = true ∧ (if ib ≥ b then ib - b else b - ib) ≠ 0 then 1 else 0) v = Sidx fac b ib v := by
  unfold Sidx
  by_cases h : ib < b
  · have h' : ¬ ib ≥ b := by omega
    have h'' : b - ib ≠ 0 := by omega
    simp [h, h', h'']
  · simp [h]

theorem omegaEntry_model_core (fac : Array ℝ) (maxLam k l m a ia b ib : ℕ) (ha : a ≤ maxLam) (hb : b ≤ maxLam)
    (hA : k + l + m + b < a → ∀ x y z, x + y + z = k + l + m + b →
      ∫ u : sphere (0 : E3) 1, (u.1 0) ^ x * (u.1 1) ^ y * (u.1 2) ^ z * Sidx fac a ia u.1 ∂σ = 0)
    (hB : k + l + m + a < b → ∀ x y z, x + y + z = k + l + m + a →
      ∫ u : sphere (0 : E3) 1, (u.1 0) ^ x * (u.1 1) ^ y * (u.1 2) ^ z * Sidx fac b ib u.1 ∂σ = 0) :
    omegaEntry (uklm fac) (wEntry (uklm fac) (pijk (α := ℝ)) maxLam) k l m a ia b ib
      = ∫ u : sphere (0 : E3) 1, (u.1 0) ^ k * (u.1 1) ^ l * (u.1 2) ^ m
          * Sidx fac a ia u.1 * Sidx fac b ib u.1 ∂σ := by
  have i1 := omegaIter_model_core fac maxLam k l m a ia b (if ib ≥ b then ib - b else b - ib) (decide (ib < b)) ha hA
  have i2 := omegaIter_model_core fac maxLam k l m b ib a (if ia ≥ a then ia - a else a - ia) (decide (ia < a)) hb hB
  simp only [SU_signed] at i1 i2
  have i1' : omegaIter (uklm fac) (wEntry (uklm fac) (pijk (α := ℝ)) maxLam) k l m a ia b
      (if ib ≥ b then ib - b else b - ib) (decide (ib < b))
      = ∫ u : sphere (0 : E3) 1, (u.1 0) ^ k * (u.1 1) ^ l * (u.1 2) ^ m
          * Sidx fac a ia u.1 * Sidx fac b ib u.1 ∂σ := by
    rw [i1]
    exact integral_congr_ae (.of_forall fun u => by ring)
  unfold omegaEntry
  simp only []
  by_cases c1 : a > b
  · rw [if_pos c1]; exact i1'
  · rw [if_neg c1]
    by_cases c2 : a < b
    · rw [if_pos c2]; exact i2
    · rw [if_neg c2]
      by_cases c3 : ib > ia
      · rw [if_pos c3]; exact i2
      · rw [if_neg c3]; exact i1'

/-- **Stage 3d**: every entry of the type-2 table the model stores, inside the triangle |a − b| ≤ k + l + m, is the sphere
integral of monomial × S_{a, ia − a} × S_{b, ib − b} for the model's own harmonic polynomials -/
theorem omegaEntry_model_eq_sphere_integral (fac : Array ℝ) (maxLam k l m a ia b ib : ℕ) (ha : a ≤ maxLam)
    (hb : b ≤ maxLam) (hab : a ≤ k + l + m + b) (hba : b ≤ k + l + m + a) :
    omegaEntry (uklm fac) (wEntry (uklm fac) (pijk (α := ℝ)) maxLam) k l m a ia b ib
      = ∫ u : sphere (0 : E3) 1, (u.1 0) ^ k * (u.1 1) ^ l * (u.1 2) ^ m
          * Sidx fac a ia u.1 * Sidx fac b ib u.1 ∂σ :=
  omegaEntry_model_core fac maxLam k l m a ia b ib ha hb (fun h => absurd h (by omega)) (fun h => absurd h (by omega))

/-- outside the triangle the stored entry is 0 -/
theorem omegaEntry_model_outside (U : ℕ → ℕ → ℕ → ℕ → ℕ → ℝ) (P : ℕ → ℕ → ℕ → ℝ) (maxLam k l m a ia b ib : ℕ)
    (h : k + l + m + b < a ∨ k + l + m + a < b) :
    omegaEntry U (wEntry U P maxLam) k l m a ia b ib = 0 := by
  unfold omegaEntry
  simp only []
  by_cases c1 : a > b
  · rw [if_pos c1]; exact omegaIter_model_outside _ _ _ _ _ _ _ _ _ _ _ (by omega)
  · rw [if_neg c1]
    by_cases c2 : a < b
    · rw [if_pos c2]; exact omegaIter_model_outside _ _ _ _ _ _ _ _ _ _ _ (by omega)
    · exact absurd h (by omega)

/-! ### Stage 4: low orders are the classical real spherical harmonics -/

set_option linter.unusedSimpArgs false

open scoped Nat

theorem facTable_eq (n : ℕ) : facTable (α := ℝ) n
    = (List.range' 1 (n - 1)).foldl (fun (a : Array ℝ) (i : ℕ) => a.push ((i : ℝ) * a[i - 1]!)) #[1] := by
  unfold facTable
  simp

theorem fac_foldl (m : ℕ) :
    ((List.range' 1 m).foldl (fun (a : Array ℝ) (i : ℕ) => a.push ((i : ℝ) * a[i - 1]!)) #[1]).size = m + 1 ∧
    ∀ i < m + 1, ((List.range' 1 m).foldl (fun (a : Array ℝ) (i : ℕ) => a.push ((i : ℝ) * a[i - 1]!)) #[1])[i]!
      = ((i ! : ℕ) : ℝ) := by
  induction m with
  | zero =>
    refine ⟨rfl, fun i hi => ?_⟩
    interval_cases i; simp
  | succ m ih =>
    rw [List.range'_1_concat, List.foldl_append]
    set a := (List.range' 1 m).foldl (fun (a : Array ℝ) (i : ℕ) => a.push ((i : ℝ) * a[i - 1]!)) #[1] with ha
    obtain ⟨hs, hv⟩ := ih
    simp only [List.foldl_cons, List.foldl_nil]
    refine ⟨by simp [hs], fun i hi => ?_⟩
    by_cases h : i < m + 1
    · rw [getElem!_pos (a.push _) i (by simp; omega), Array.getElem_push_lt (by omega), ← getElem!_pos]
      exact hv i h
    · have e : i = a.size := by omega
      subst e
      rw [getElem!_pos _ _ (by simp)]
      simp only [Array.getElem_push_eq]
      rw [hs, Nat.add_comm 1 m, Nat.add_sub_cancel, hv m (by omega), Nat.factorial_succ]
      push_cast; ring

theorem facTable_spec (n i : ℕ) (hi : i < n) : (facTable (α := ℝ) n)[i]! = ((i ! : ℕ) : ℝ) := by
  rw [facTable_eq]
  exact (fac_foldl (n - 1)).2 i (by omega)


@[simp] theorem flt_sqrt (x : ℝ) : Flt.sqrt x = √x := rfl
@[simp] theorem flt_pi : (Flt.pi : ℝ) = π := rfl

theorem Sidx_0_0 (n : ℕ) (hn : 1 ≤ n) (v : E3) : Sidx (facTable (α := ℝ) n) 0 0 v = 1 / √(4 * π) := by
  have f0 : (facTable (α := ℝ) n)[0]! = 1 := by rw [facTable_spec n 0 (by omega)]; simp
  unfold Sidx SU uklm calcG calcH1 calcH2
  simp [f0, Gen.fastPow, Gen.pow_0]
  refine (sq_eq_sq₀ (by positivity) (by positivity)).mp ?_
  simp only [mul_pow, inv_pow, Real.sq_sqrt pi_pos.le, Real.sq_sqrt (show (0:ℝ) ≤ 2 by norm_num),
    Real.sq_sqrt (show (0:ℝ) ≤ 4 by norm_num)]
  ring

theorem Sidx_1_0 (n : ℕ) (hn : 3 ≤ n) (v : E3) : Sidx (facTable (α := ℝ) n) 1 0 v = √(3 / (4 * π)) * v 1 := by
  have f0 : (facTable (α := ℝ) n)[0]! = 1 := by rw [facTable_spec n 0 (by omega)]; simp
  have f1 : (facTable (α := ℝ) n)[1]! = 1 := by rw [facTable_spec n 1 (by omega)]; simp
  have f2 : (facTable (α := ℝ) n)[2]! = 2 := by rw [facTable_spec n 2 (by omega)]; simp
  unfold Sidx SU uklm calcG calcH1 calcH2
  simp [f0, f1, f2, Gen.fastPow, Gen.pow_1, Finset.sum_range_succ]
  left
  refine (sq_eq_sq₀ (by positivity) (by positivity)).mp ?_
  simp only [mul_pow, div_pow, inv_pow, Real.sq_sqrt pi_pos.le, Real.sq_sqrt (show (0:ℝ) ≤ 3 by norm_num),
    Real.sq_sqrt (show (0:ℝ) ≤ 4 by norm_num), Real.sq_sqrt (show (0:ℝ) ≤ (2 + 1) / (2 * π * 2) by positivity)]
  field_simp
  ring

theorem Sidx_1_1 (n : ℕ) (hn : 3 ≤ n) (v : E3) : Sidx (facTable (α := ℝ) n) 1 1 v = √(3 / (4 * π)) * v 2 := by
  have f0 : (facTable (α := ℝ) n)[0]! = 1 := by rw [facTable_spec n 0 (by omega)]; simp
  have f1 : (facTable (α := ℝ) n)[1]! = 1 := by rw [facTable_spec n 1 (by omega)]; simp
  have f2 : (facTable (α := ℝ) n)[2]! = 2 := by rw [facTable_spec n 2 (by omega)]; simp
  unfold Sidx SU uklm calcG calcH1 calcH2
  simp [f0, f1, f2, Gen.fastPow, Gen.pow_1, Finset.sum_range_succ]
  left
  refine (sq_eq_sq₀ (by positivity) (by positivity)).mp ?_
  simp only [mul_pow, div_pow, inv_pow, Real.sq_sqrt pi_pos.le, Real.sq_sqrt (show (0:ℝ) ≤ 3 by norm_num),
    Real.sq_sqrt (show (0:ℝ) ≤ 4 by norm_num), Real.sq_sqrt (show (0:ℝ) ≤ 2 by norm_num),
    Real.sq_sqrt (show (0:ℝ) ≤ (2 + 1) / (2 * π) by positivity)]
  field_simp
  ring

theorem Sidx_1_2 (n : ℕ) (hn : 3 ≤ n) (v : E3) : Sidx (facTable (α := ℝ) n) 1 2 v = √(3 / (4 * π)) * v 0 := by
  have f0 : (facTable (α := ℝ) n)[0]! = 1 := by rw [facTable_spec n 0 (by omega)]; simp
  have f1 : (facTable (α := ℝ) n)[1]! = 1 := by rw [facTable_spec n 1 (by omega)]; simp
  have f2 : (facTable (α := ℝ) n)[2]! = 2 := by rw [facTable_spec n 2 (by omega)]; simp
  unfold Sidx SU uklm calcG calcH1 calcH2
  simp [f0, f1, f2, Gen.fastPow, Gen.pow_1, Finset.sum_range_succ]
  left
  refine (sq_eq_sq₀ (by positivity) (by positivity)).mp ?_
  simp only [mul_pow, div_pow, inv_pow, Real.sq_sqrt pi_pos.le, Real.sq_sqrt (show (0:ℝ) ≤ 3 by norm_num),
    Real.sq_sqrt (show (0:ℝ) ≤ 4 by norm_num), Real.sq_sqrt (show (0:ℝ) ≤ (2 + 1) / (2 * π * 2) by positivity)]
  field_simp
  ring


theorem Sidx_2_2 (n : ℕ) (hn : 5 ≤ n) (v : E3) : Sidx (facTable (α := ℝ) n) 2 2 v
    = √(5 / (16 * π)) * (2 * v 2 ^ 2 - v 0 ^ 2 - v 1 ^ 2) := by
  have f0 : (facTable (α := ℝ) n)[0]! = 1 := by rw [facTable_spec n 0 (by omega)]; simp
  have f1 : (facTable (α := ℝ) n)[1]! = 1 := by rw [facTable_spec n 1 (by omega)]; simp
  have f2 : (facTable (α := ℝ) n)[2]! = 2 := by rw [facTable_spec n 2 (by omega)]; simp
  have f3 : (facTable (α := ℝ) n)[3]! = 6 := by rw [facTable_spec n 3 (by omega)]; simp [Nat.factorial]
  have f4 : (facTable (α := ℝ) n)[4]! = 24 := by rw [facTable_spec n 4 (by omega)]; simp [Nat.factorial]
  have key : √((2 * 2 + 1) * 2 / (2 * π * 2)) * (√2)⁻¹ = 2 * (√5 / (√16 * √π)) := by
    refine (sq_eq_sq₀ (by positivity) (by positivity)).mp ?_
    simp (disch := positivity) only [mul_pow, div_pow, inv_pow, Real.sq_sqrt]
    field_simp
    ring
  unfold Sidx SU uklm calcG calcH1 calcH2
  simp [f0, f1, f2, f3, f4, Gen.fastPow, Gen.pow_2, Finset.sum_range_succ, List.range_succ]
  linear_combination (v 2 ^ 2 - v 1 ^ 2 / 2 - v 0 ^ 2 / 2) * key

theorem Sidx_2_0 (n : ℕ) (hn : 5 ≤ n) (v : E3) : Sidx (facTable (α := ℝ) n) 2 0 v
    = √(15 / (4 * π)) * (v 0 * v 1) := by
  have f0 : (facTable (α := ℝ) n)[0]! = 1 := by rw [facTable_spec n 0 (by omega)]; simp
  have f1 : (facTable (α := ℝ) n)[1]! = 1 := by rw [facTable_spec n 1 (by omega)]; simp
  have f2 : (facTable (α := ℝ) n)[2]! = 2 := by rw [facTable_spec n 2 (by omega)]; simp
  have f3 : (facTable (α := ℝ) n)[3]! = 6 := by rw [facTable_spec n 3 (by omega)]; simp [Nat.factorial]
  have f4 : (facTable (α := ℝ) n)[4]! = 24 := by rw [facTable_spec n 4 (by omega)]; simp [Nat.factorial]
  have key : 6 * √((2 * 2 + 1) / (2 * π * 24)) = √15 / (√4 * √π) := by
    refine (sq_eq_sq₀ (by positivity) (by positivity)).mp ?_
    simp (disch := positivity) only [mul_pow, div_pow, inv_pow, Real.sq_sqrt]
    field_simp
    ring
  unfold Sidx SU uklm calcG calcH1 calcH2
  simp [f0, f1, f2, f3, f4, Gen.fastPow, Gen.pow_2, Finset.sum_range_succ, List.range_succ]
  linear_combination (v 0 * v 1) * key

theorem Sidx_2_1 (n : ℕ) (hn : 5 ≤ n) (v : E3) : Sidx (facTable (α := ℝ) n) 2 1 v
    = √(15 / (4 * π)) * (v 1 * v 2) := by
  have f0 : (facTable (α := ℝ) n)[0]! = 1 := by rw [facTable_spec n 0 (by omega)]; simp
  have f1 : (facTable (α := ℝ) n)[1]! = 1 := by rw [facTable_spec n 1 (by omega)]; simp
  have f2 : (facTable (α := ℝ) n)[2]! = 2 := by rw [facTable_spec n 2 (by omega)]; simp
  have f3 : (facTable (α := ℝ) n)[3]! = 6 := by rw [facTable_spec n 3 (by omega)]; simp [Nat.factorial]
  have f4 : (facTable (α := ℝ) n)[4]! = 24 := by rw [facTable_spec n 4 (by omega)]; simp [Nat.factorial]
  have key : 3 * √((2 * 2 + 1) / (2 * π * 6)) = √15 / (√4 * √π) := by
    refine (sq_eq_sq₀ (by positivity) (by positivity)).mp ?_
    simp (disch := positivity) only [mul_pow, div_pow, inv_pow, Real.sq_sqrt]
    field_simp
    ring
  unfold Sidx SU uklm calcG calcH1 calcH2
  simp [f0, f1, f2, f3, f4, Gen.fastPow, Gen.pow_2, Finset.sum_range_succ, List.range_succ]
  linear_combination (v 1 * v 2) * key

theorem Sidx_2_3 (n : ℕ) (hn : 5 ≤ n) (v : E3) : Sidx (facTable (α := ℝ) n) 2 3 v
    = √(15 / (4 * π)) * (v 0 * v 2) := by
  have f0 : (facTable (α := ℝ) n)[0]! = 1 := by rw [facTable_spec n 0 (by omega)]; simp
  have f1 : (facTable (α := ℝ) n)[1]! = 1 := by rw [facTable_spec n 1 (by omega)]; simp
  have f2 : (facTable (α := ℝ) n)[2]! = 2 := by rw [facTable_spec n 2 (by omega)]; simp
  have f3 : (facTable (α := ℝ) n)[3]! = 6 := by rw [facTable_spec n 3 (by omega)]; simp [Nat.factorial]
  have f4 : (facTable (α := ℝ) n)[4]! = 24 := by rw [facTable_spec n 4 (by omega)]; simp [Nat.factorial]
  have key : 3 * √((2 * 2 + 1) / (2 * π * 6)) = √15 / (√4 * √π) := by
    refine (sq_eq_sq₀ (by positivity) (by positivity)).mp ?_
    simp (disch := positivity) only [mul_pow, div_pow, inv_pow, Real.sq_sqrt]
    field_simp
    ring
  unfold Sidx SU uklm calcG calcH1 calcH2
  simp [f0, f1, f2, f3, f4, Gen.fastPow, Gen.pow_2, Finset.sum_range_succ, List.range_succ]
  linear_combination (v 0 * v 2) * key

theorem Sidx_2_4 (n : ℕ) (hn : 5 ≤ n) (v : E3) : Sidx (facTable (α := ℝ) n) 2 4 v
    = √(15 / (16 * π)) * (v 0 ^ 2 - v 1 ^ 2) := by
  have f0 : (facTable (α := ℝ) n)[0]! = 1 := by rw [facTable_spec n 0 (by omega)]; simp
  have f1 : (facTable (α := ℝ) n)[1]! = 1 := by rw [facTable_spec n 1 (by omega)]; simp
  have f2 : (facTable (α := ℝ) n)[2]! = 2 := by rw [facTable_spec n 2 (by omega)]; simp
  have f3 : (facTable (α := ℝ) n)[3]! = 6 := by rw [facTable_spec n 3 (by omega)]; simp [Nat.factorial]
  have f4 : (facTable (α := ℝ) n)[4]! = 24 := by rw [facTable_spec n 4 (by omega)]; simp [Nat.factorial]
  have key : 3 * √((2 * 2 + 1) / (2 * π * 24)) = √15 / (√16 * √π) := by
    refine (sq_eq_sq₀ (by positivity) (by positivity)).mp ?_
    simp (disch := positivity) only [mul_pow, div_pow, inv_pow, Real.sq_sqrt]
    field_simp
    ring
  unfold Sidx SU uklm calcG calcH1 calcH2
  simp [f0, f1, f2, f3, f4, Gen.fastPow, Gen.pow_2, Finset.sum_range_succ, List.range_succ]
  linear_combination (v 0 ^ 2 - v 1 ^ 2) * key

set_option linter.unusedTactic false
set_option linter.unreachableTactic false

/-! orthonormality for orders ≤ 2 (the 45 products are expanded into monomials by a script; each integral is then
`sphere_integral_monomial` / `sphere_integral_odd`) -/

theorem monoInt_closed (a b c : ℕ) :
    monoInt a b c = if a % 2 = 0 ∧ b % 2 = 0 ∧ c % 2 = 0 then
      4 * π * (((a - 1)‼ * (b - 1)‼ * (c - 1)‼ : ℕ) : ℝ) / (((a + b + c + 1)‼ : ℕ) : ℝ) else 0 := by
  unfold monoInt
  split_ifs with h
  · obtain ⟨i, rfl⟩ : ∃ i, a = 2 * i := ⟨a / 2, by omega⟩
    obtain ⟨j, rfl⟩ : ∃ j, b = 2 * j := ⟨b / 2, by omega⟩
    obtain ⟨k, rfl⟩ : ∃ k, c = 2 * k := ⟨c / 2, by omega⟩
    have := sphere_integral_monomial i j k
    rw [show 2 * i + 2 * j + 2 * k + 1 = 2 * (i + j + k) + 1 by ring]
    exact this
  · exact sphere_integral_odd a b c (by simp only [Nat.odd_iff]; omega)

/-- integral of an explicit polynomial, given as a list of (coefficient, exponents) -/
theorem integral_polyList (L : List (ℝ × ℕ × ℕ × ℕ)) :
    ∫ u : sphere (0 : E3) 1, (L.map fun t => t.1 * mono t.2.1 t.2.2.1 t.2.2.2 u.1).sum ∂σ
      = (L.map fun t => t.1 * monoInt t.2.1 t.2.2.1 t.2.2.2).sum := by
  induction L with
  | nil => simp
  | cons t L ih =>
    simp only [List.map_cons, List.sum_cons]
    rw [integral_add, ih, integral_const_mul]
    · rfl
    · exact integrable_of_continuous ((continuous_mono _ _ _).const_mul _ |>.congr fun _ => rfl)
    · refine integrable_of_continuous ?_
      clear ih
      induction L with
      | nil => simpa using continuous_const
      | cons t L ih =>
        simp only [List.map_cons, List.sum_cons]
        exact ((continuous_mono _ _ _).const_mul _).add ih

theorem orth_0_0_0_0 (n : ℕ) (hn : 5 ≤ n) :
    ∫ u : sphere (0 : E3) 1, Sidx (facTable (α := ℝ) n) 0 0 u.1 * Sidx (facTable (α := ℝ) n) 0 0 u.1 ∂σ = 1 := by
  simp only [Sidx_0_0 n (by omega), Sidx_0_0 n (by omega)]
  have e : ∀ u : sphere (0 : E3) 1, 1 / √(4 * π) * (1 / √(4 * π))
      = (1 / √(4 * π) * (1 / √(4 * π))) * ([(1, 0, 0, 0)].map
          fun t : ℝ × ℕ × ℕ × ℕ => t.1 * mono t.2.1 t.2.2.1 t.2.2.2 u.1).sum := by
    intro u
    simp [mono]
    try ring
  rw [integral_congr_ae (.of_forall e), integral_const_mul, integral_polyList]
  rw [div_mul_div_comm, Real.mul_self_sqrt (by positivity), one_mul, one_div]
  have I : ([(1, 0, 0, 0)].map
      fun t : ℝ × ℕ × ℕ × ℕ => t.1 * monoInt t.2.1 t.2.2.1 t.2.2.2).sum = ((4 * π)⁻¹)⁻¹ := by
    simp [monoInt_closed, Nat.doubleFactorial]
    try field_simp
    try ring
  rw [I]
  refine mul_inv_cancel₀ ?_
  positivity

theorem orth_0_0_1_0 (n : ℕ) (hn : 5 ≤ n) :
    ∫ u : sphere (0 : E3) 1, Sidx (facTable (α := ℝ) n) 0 0 u.1 * Sidx (facTable (α := ℝ) n) 1 0 u.1 ∂σ = 0 := by
  simp only [Sidx_0_0 n (by omega), Sidx_1_0 n (by omega)]
  have e : ∀ u : sphere (0 : E3) 1, 1 / √(4 * π) * (√(3 / (4 * π)) * u.1 1)
      = (1 / √(4 * π) * (√(3 / (4 * π)))) * ([(1, 0, 1, 0)].map
          fun t : ℝ × ℕ × ℕ × ℕ => t.1 * mono t.2.1 t.2.2.1 t.2.2.2 u.1).sum := by
    intro u
    simp [mono]
    try ring
  rw [integral_congr_ae (.of_forall e), integral_const_mul, integral_polyList]
  have I : ([(1, 0, 1, 0)].map
      fun t : ℝ × ℕ × ℕ × ℕ => t.1 * monoInt t.2.1 t.2.2.1 t.2.2.2).sum = 0 := by
    simp [monoInt_closed, Nat.doubleFactorial]
    try ring
  rw [I, mul_zero]

theorem orth_0_0_1_1 (n : ℕ) (hn : 5 ≤ n) :
    ∫ u : sphere (0 : E3) 1, Sidx (facTable (α := ℝ) n) 0 0 u.1 * Sidx (facTable (α := ℝ) n) 1 1 u.1 ∂σ = 0 := by
  simp only [Sidx_0_0 n (by omega), Sidx_1_1 n (by omega)]
  have e : ∀ u : sphere (0 : E3) 1, 1 / √(4 * π) * (√(3 / (4 * π)) * u.1 2)
      = (1 / √(4 * π) * (√(3 / (4 * π)))) * ([(1, 0, 0, 1)].map
          fun t : ℝ × ℕ × ℕ × ℕ => t.1 * mono t.2.1 t.2.2.1 t.2.2.2 u.1).sum := by
    intro u
    simp [mono]
    try ring
  rw [integral_congr_ae (.of_forall e), integral_const_mul, integral_polyList]
  have I : ([(1, 0, 0, 1)].map
      fun t : ℝ × ℕ × ℕ × ℕ => t.1 * monoInt t.2.1 t.2.2.1 t.2.2.2).sum = 0 := by
    simp [monoInt_closed, Nat.doubleFactorial]
    try ring
  rw [I, mul_zero]

theorem orth_0_0_1_2 (n : ℕ) (hn : 5 ≤ n) :
    ∫ u : sphere (0 : E3) 1, Sidx (facTable (α := ℝ) n) 0 0 u.1 * Sidx (facTable (α := ℝ) n) 1 2 u.1 ∂σ = 0 := by
  simp only [Sidx_0_0 n (by omega), Sidx_1_2 n (by omega)]
  have e : ∀ u : sphere (0 : E3) 1, 1 / √(4 * π) * (√(3 / (4 * π)) * u.1 0)
      = (1 / √(4 * π) * (√(3 / (4 * π)))) * ([(1, 1, 0, 0)].map
          fun t : ℝ × ℕ × ℕ × ℕ => t.1 * mono t.2.1 t.2.2.1 t.2.2.2 u.1).sum := by
    intro u
    simp [mono]
    try ring
  rw [integral_congr_ae (.of_forall e), integral_const_mul, integral_polyList]
  have I : ([(1, 1, 0, 0)].map
      fun t : ℝ × ℕ × ℕ × ℕ => t.1 * monoInt t.2.1 t.2.2.1 t.2.2.2).sum = 0 := by
    simp [monoInt_closed, Nat.doubleFactorial]
    try ring
  rw [I, mul_zero]

theorem orth_0_0_2_0 (n : ℕ) (hn : 5 ≤ n) :
    ∫ u : sphere (0 : E3) 1, Sidx (facTable (α := ℝ) n) 0 0 u.1 * Sidx (facTable (α := ℝ) n) 2 0 u.1 ∂σ = 0 := by
  simp only [Sidx_0_0 n (by omega), Sidx_2_0 n (by omega)]
  have e : ∀ u : sphere (0 : E3) 1, 1 / √(4 * π) * (√(15 / (4 * π)) * (u.1 0 * u.1 1))
      = (1 / √(4 * π) * (√(15 / (4 * π)))) * ([(1, 1, 1, 0)].map
          fun t : ℝ × ℕ × ℕ × ℕ => t.1 * mono t.2.1 t.2.2.1 t.2.2.2 u.1).sum := by
    intro u
    simp [mono]
    try ring
  rw [integral_congr_ae (.of_forall e), integral_const_mul, integral_polyList]
  have I : ([(1, 1, 1, 0)].map
      fun t : ℝ × ℕ × ℕ × ℕ => t.1 * monoInt t.2.1 t.2.2.1 t.2.2.2).sum = 0 := by
    simp [monoInt_closed, Nat.doubleFactorial]
    try ring
  rw [I, mul_zero]

theorem orth_0_0_2_1 (n : ℕ) (hn : 5 ≤ n) :
    ∫ u : sphere (0 : E3) 1, Sidx (facTable (α := ℝ) n) 0 0 u.1 * Sidx (facTable (α := ℝ) n) 2 1 u.1 ∂σ = 0 := by
  simp only [Sidx_0_0 n (by omega), Sidx_2_1 n (by omega)]
  have e : ∀ u : sphere (0 : E3) 1, 1 / √(4 * π) * (√(15 / (4 * π)) * (u.1 1 * u.1 2))
      = (1 / √(4 * π) * (√(15 / (4 * π)))) * ([(1, 0, 1, 1)].map
          fun t : ℝ × ℕ × ℕ × ℕ => t.1 * mono t.2.1 t.2.2.1 t.2.2.2 u.1).sum := by
    intro u
    simp [mono]
    try ring
  rw [integral_congr_ae (.of_forall e), integral_const_mul, integral_polyList]
  have I : ([(1, 0, 1, 1)].map
      fun t : ℝ × ℕ × ℕ × ℕ => t.1 * monoInt t.2.1 t.2.2.1 t.2.2.2).sum = 0 := by
    simp [monoInt_closed, Nat.doubleFactorial]
    try ring
  rw [I, mul_zero]

theorem orth_0_0_2_2 (n : ℕ) (hn : 5 ≤ n) :
    ∫ u : sphere (0 : E3) 1, Sidx (facTable (α := ℝ) n) 0 0 u.1 * Sidx (facTable (α := ℝ) n) 2 2 u.1 ∂σ = 0 := by
  simp only [Sidx_0_0 n (by omega), Sidx_2_2 n (by omega)]
  have e : ∀ u : sphere (0 : E3) 1, 1 / √(4 * π) * (√(5 / (16 * π)) * (2 * u.1 2 ^ 2 - u.1 0 ^ 2 - u.1 1 ^ 2))
      = (1 / √(4 * π) * (√(5 / (16 * π)))) * ([(2, 0, 0, 2), (-1, 2, 0, 0), (-1, 0, 2, 0)].map
          fun t : ℝ × ℕ × ℕ × ℕ => t.1 * mono t.2.1 t.2.2.1 t.2.2.2 u.1).sum := by
    intro u
    simp [mono]
    try ring
  rw [integral_congr_ae (.of_forall e), integral_const_mul, integral_polyList]
  have I : ([(2, 0, 0, 2), (-1, 2, 0, 0), (-1, 0, 2, 0)].map
      fun t : ℝ × ℕ × ℕ × ℕ => t.1 * monoInt t.2.1 t.2.2.1 t.2.2.2).sum = 0 := by
    simp [monoInt_closed, Nat.doubleFactorial]
    try ring
  rw [I, mul_zero]

theorem orth_0_0_2_3 (n : ℕ) (hn : 5 ≤ n) :
    ∫ u : sphere (0 : E3) 1, Sidx (facTable (α := ℝ) n) 0 0 u.1 * Sidx (facTable (α := ℝ) n) 2 3 u.1 ∂σ = 0 := by
  simp only [Sidx_0_0 n (by omega), Sidx_2_3 n (by omega)]
  have e : ∀ u : sphere (0 : E3) 1, 1 / √(4 * π) * (√(15 / (4 * π)) * (u.1 0 * u.1 2))
      = (1 / √(4 * π) * (√(15 / (4 * π)))) * ([(1, 1, 0, 1)].map
          fun t : ℝ × ℕ × ℕ × ℕ => t.1 * mono t.2.1 t.2.2.1 t.2.2.2 u.1).sum := by
    intro u
    simp [mono]
    try ring
  rw [integral_congr_ae (.of_forall e), integral_const_mul, integral_polyList]
  have I : ([(1, 1, 0, 1)].map
      fun t : ℝ × ℕ × ℕ × ℕ => t.1 * monoInt t.2.1 t.2.2.1 t.2.2.2).sum = 0 := by
    simp [monoInt_closed, Nat.doubleFactorial]
    try ring
  rw [I, mul_zero]

theorem orth_0_0_2_4 (n : ℕ) (hn : 5 ≤ n) :
    ∫ u : sphere (0 : E3) 1, Sidx (facTable (α := ℝ) n) 0 0 u.1 * Sidx (facTable (α := ℝ) n) 2 4 u.1 ∂σ = 0 := by
  simp only [Sidx_0_0 n (by omega), Sidx_2_4 n (by omega)]
  have e : ∀ u : sphere (0 : E3) 1, 1 / √(4 * π) * (√(15 / (16 * π)) * (u.1 0 ^ 2 - u.1 1 ^ 2))
      = (1 / √(4 * π) * (√(15 / (16 * π)))) * ([(1, 2, 0, 0), (-1, 0, 2, 0)].map
          fun t : ℝ × ℕ × ℕ × ℕ => t.1 * mono t.2.1 t.2.2.1 t.2.2.2 u.1).sum := by
    intro u
    simp [mono]
    try ring
  rw [integral_congr_ae (.of_forall e), integral_const_mul, integral_polyList]
  have I : ([(1, 2, 0, 0), (-1, 0, 2, 0)].map
      fun t : ℝ × ℕ × ℕ × ℕ => t.1 * monoInt t.2.1 t.2.2.1 t.2.2.2).sum = 0 := by
    simp [monoInt_closed, Nat.doubleFactorial]
    try ring
  rw [I, mul_zero]

theorem orth_1_0_1_0 (n : ℕ) (hn : 5 ≤ n) :
    ∫ u : sphere (0 : E3) 1, Sidx (facTable (α := ℝ) n) 1 0 u.1 * Sidx (facTable (α := ℝ) n) 1 0 u.1 ∂σ = 1 := by
  simp only [Sidx_1_0 n (by omega), Sidx_1_0 n (by omega)]
  have e : ∀ u : sphere (0 : E3) 1, √(3 / (4 * π)) * u.1 1 * (√(3 / (4 * π)) * u.1 1)
      = (√(3 / (4 * π)) * (√(3 / (4 * π)))) * ([(1, 0, 2, 0)].map
          fun t : ℝ × ℕ × ℕ × ℕ => t.1 * mono t.2.1 t.2.2.1 t.2.2.2 u.1).sum := by
    intro u
    simp [mono]
    try ring
  rw [integral_congr_ae (.of_forall e), integral_const_mul, integral_polyList]
  rw [Real.mul_self_sqrt (by positivity)]
  have I : ([(1, 0, 2, 0)].map
      fun t : ℝ × ℕ × ℕ × ℕ => t.1 * monoInt t.2.1 t.2.2.1 t.2.2.2).sum = (3 / (4 * π))⁻¹ := by
    simp [monoInt_closed, Nat.doubleFactorial]
    try field_simp
    try ring
  rw [I]
  refine mul_inv_cancel₀ ?_
  positivity

theorem orth_1_0_1_1 (n : ℕ) (hn : 5 ≤ n) :
    ∫ u : sphere (0 : E3) 1, Sidx (facTable (α := ℝ) n) 1 0 u.1 * Sidx (facTable (α := ℝ) n) 1 1 u.1 ∂σ = 0 := by
  simp only [Sidx_1_0 n (by omega), Sidx_1_1 n (by omega)]
  have e : ∀ u : sphere (0 : E3) 1, √(3 / (4 * π)) * u.1 1 * (√(3 / (4 * π)) * u.1 2)
      = (√(3 / (4 * π)) * (√(3 / (4 * π)))) * ([(1, 0, 1, 1)].map
          fun t : ℝ × ℕ × ℕ × ℕ => t.1 * mono t.2.1 t.2.2.1 t.2.2.2 u.1).sum := by
    intro u
    simp [mono]
    try ring
  rw [integral_congr_ae (.of_forall e), integral_const_mul, integral_polyList]
  have I : ([(1, 0, 1, 1)].map
      fun t : ℝ × ℕ × ℕ × ℕ => t.1 * monoInt t.2.1 t.2.2.1 t.2.2.2).sum = 0 := by
    simp [monoInt_closed, Nat.doubleFactorial]
    try ring
  rw [I, mul_zero]

theorem orth_1_0_1_2 (n : ℕ) (hn : 5 ≤ n) :
    ∫ u : sphere (0 : E3) 1, Sidx (facTable (α := ℝ) n) 1 0 u.1 * Sidx (facTable (α := ℝ) n) 1 2 u.1 ∂σ = 0 := by
  simp only [Sidx_1_0 n (by omega), Sidx_1_2 n (by omega)]
  have e : ∀ u : sphere (0 : E3) 1, √(3 / (4 * π)) * u.1 1 * (√(3 / (4 * π)) * u.1 0)
      = (√(3 / (4 * π)) * (√(3 / (4 * π)))) * ([(1, 1, 1, 0)].map
          fun t : ℝ × ℕ × ℕ × ℕ => t.1 * mono t.2.1 t.2.2.1 t.2.2.2 u.1).sum := by
    intro u
    simp [mono]
    try ring
  rw [integral_congr_ae (.of_forall e), integral_const_mul, integral_polyList]
  have I : ([(1, 1, 1, 0)].map
      fun t : ℝ × ℕ × ℕ × ℕ => t.1 * monoInt t.2.1 t.2.2.1 t.2.2.2).sum = 0 := by
    simp [monoInt_closed, Nat.doubleFactorial]
    try ring
  rw [I, mul_zero]

theorem orth_1_0_2_0 (n : ℕ) (hn : 5 ≤ n) :
    ∫ u : sphere (0 : E3) 1, Sidx (facTable (α := ℝ) n) 1 0 u.1 * Sidx (facTable (α := ℝ) n) 2 0 u.1 ∂σ = 0 := by
  simp only [Sidx_1_0 n (by omega), Sidx_2_0 n (by omega)]
  have e : ∀ u : sphere (0 : E3) 1, √(3 / (4 * π)) * u.1 1 * (√(15 / (4 * π)) * (u.1 0 * u.1 1))
      = (√(3 / (4 * π)) * (√(15 / (4 * π)))) * ([(1, 1, 2, 0)].map
          fun t : ℝ × ℕ × ℕ × ℕ => t.1 * mono t.2.1 t.2.2.1 t.2.2.2 u.1).sum := by
    intro u
    simp [mono]
    try ring
  rw [integral_congr_ae (.of_forall e), integral_const_mul, integral_polyList]
  have I : ([(1, 1, 2, 0)].map
      fun t : ℝ × ℕ × ℕ × ℕ => t.1 * monoInt t.2.1 t.2.2.1 t.2.2.2).sum = 0 := by
    simp [monoInt_closed, Nat.doubleFactorial]
    try ring
  rw [I, mul_zero]

theorem orth_1_0_2_1 (n : ℕ) (hn : 5 ≤ n) :
    ∫ u : sphere (0 : E3) 1, Sidx (facTable (α := ℝ) n) 1 0 u.1 * Sidx (facTable (α := ℝ) n) 2 1 u.1 ∂σ = 0 := by
  simp only [Sidx_1_0 n (by omega), Sidx_2_1 n (by omega)]
  have e : ∀ u : sphere (0 : E3) 1, √(3 / (4 * π)) * u.1 1 * (√(15 / (4 * π)) * (u.1 1 * u.1 2))
      = (√(3 / (4 * π)) * (√(15 / (4 * π)))) * ([(1, 0, 2, 1)].map
          fun t : ℝ × ℕ × ℕ × ℕ => t.1 * mono t.2.1 t.2.2.1 t.2.2.2 u.1).sum := by
    intro u
    simp [mono]
    try ring
  rw [integral_congr_ae (.of_forall e), integral_const_mul, integral_polyList]
  have I : ([(1, 0, 2, 1)].map
      fun t : ℝ × ℕ × ℕ × ℕ => t.1 * monoInt t.2.1 t.2.2.1 t.2.2.2).sum = 0 := by
    simp [monoInt_closed, Nat.doubleFactorial]
    try ring
  rw [I, mul_zero]

theorem orth_1_0_2_2 (n : ℕ) (hn : 5 ≤ n) :
    ∫ u : sphere (0 : E3) 1, Sidx (facTable (α := ℝ) n) 1 0 u.1 * Sidx (facTable (α := ℝ) n) 2 2 u.1 ∂σ = 0 := by
  simp only [Sidx_1_0 n (by omega), Sidx_2_2 n (by omega)]
  have e : ∀ u : sphere (0 : E3) 1, √(3 / (4 * π)) * u.1 1 * (√(5 / (16 * π)) * (2 * u.1 2 ^ 2 - u.1 0 ^ 2 - u.1 1 ^ 2))
      = (√(3 / (4 * π)) * (√(5 / (16 * π)))) * ([(2, 0, 1, 2), (-1, 2, 1, 0), (-1, 0, 3, 0)].map
          fun t : ℝ × ℕ × ℕ × ℕ => t.1 * mono t.2.1 t.2.2.1 t.2.2.2 u.1).sum := by
    intro u
    simp [mono]
    try ring
  rw [integral_congr_ae (.of_forall e), integral_const_mul, integral_polyList]
  have I : ([(2, 0, 1, 2), (-1, 2, 1, 0), (-1, 0, 3, 0)].map
      fun t : ℝ × ℕ × ℕ × ℕ => t.1 * monoInt t.2.1 t.2.2.1 t.2.2.2).sum = 0 := by
    simp [monoInt_closed, Nat.doubleFactorial]
    try ring
  rw [I, mul_zero]

theorem orth_1_0_2_3 (n : ℕ) (hn : 5 ≤ n) :
    ∫ u : sphere (0 : E3) 1, Sidx (facTable (α := ℝ) n) 1 0 u.1 * Sidx (facTable (α := ℝ) n) 2 3 u.1 ∂σ = 0 := by
  simp only [Sidx_1_0 n (by omega), Sidx_2_3 n (by omega)]
  have e : ∀ u : sphere (0 : E3) 1, √(3 / (4 * π)) * u.1 1 * (√(15 / (4 * π)) * (u.1 0 * u.1 2))
      = (√(3 / (4 * π)) * (√(15 / (4 * π)))) * ([(1, 1, 1, 1)].map
          fun t : ℝ × ℕ × ℕ × ℕ => t.1 * mono t.2.1 t.2.2.1 t.2.2.2 u.1).sum := by
    intro u
    simp [mono]
    try ring
  rw [integral_congr_ae (.of_forall e), integral_const_mul, integral_polyList]
  have I : ([(1, 1, 1, 1)].map
      fun t : ℝ × ℕ × ℕ × ℕ => t.1 * monoInt t.2.1 t.2.2.1 t.2.2.2).sum = 0 := by
    simp [monoInt_closed, Nat.doubleFactorial]
    try ring
  rw [I, mul_zero]

theorem orth_1_0_2_4 (n : ℕ) (hn : 5 ≤ n) :
    ∫ u : sphere (0 : E3) 1, Sidx (facTable (α := ℝ) n) 1 0 u.1 * Sidx (facTable (α := ℝ) n) 2 4 u.1 ∂σ = 0 := by
  simp only [Sidx_1_0 n (by omega), Sidx_2_4 n (by omega)]
  have e : ∀ u : sphere (0 : E3) 1, √(3 / (4 * π)) * u.1 1 * (√(15 / (16 * π)) * (u.1 0 ^ 2 - u.1 1 ^ 2))
      = (√(3 / (4 * π)) * (√(15 / (16 * π)))) * ([(1, 2, 1, 0), (-1, 0, 3, 0)].map
          fun t : ℝ × ℕ × ℕ × ℕ => t.1 * mono t.2.1 t.2.2.1 t.2.2.2 u.1).sum := by
    intro u
    simp [mono]
    try ring
  rw [integral_congr_ae (.of_forall e), integral_const_mul, integral_polyList]
  have I : ([(1, 2, 1, 0), (-1, 0, 3, 0)].map
      fun t : ℝ × ℕ × ℕ × ℕ => t.1 * monoInt t.2.1 t.2.2.1 t.2.2.2).sum = 0 := by
    simp [monoInt_closed, Nat.doubleFactorial]
    try ring
  rw [I, mul_zero]

theorem orth_1_1_1_1 (n : ℕ) (hn : 5 ≤ n) :
    ∫ u : sphere (0 : E3) 1, Sidx (facTable (α := ℝ) n) 1 1 u.1 * Sidx (facTable (α := ℝ) n) 1 1 u.1 ∂σ = 1 := by
  simp only [Sidx_1_1 n (by omega), Sidx_1_1 n (by omega)]
  have e : ∀ u : sphere (0 : E3) 1, √(3 / (4 * π)) * u.1 2 * (√(3 / (4 * π)) * u.1 2)
      = (√(3 / (4 * π)) * (√(3 / (4 * π)))) * ([(1, 0, 0, 2)].map
          fun t : ℝ × ℕ × ℕ × ℕ => t.1 * mono t.2.1 t.2.2.1 t.2.2.2 u.1).sum := by
    intro u
    simp [mono]
    try ring
  rw [integral_congr_ae (.of_forall e), integral_const_mul, integral_polyList]
  rw [Real.mul_self_sqrt (by positivity)]
  have I : ([(1, 0, 0, 2)].map
      fun t : ℝ × ℕ × ℕ × ℕ => t.1 * monoInt t.2.1 t.2.2.1 t.2.2.2).sum = (3 / (4 * π))⁻¹ := by
    simp [monoInt_closed, Nat.doubleFactorial]
    try field_simp
    try ring
  rw [I]
  refine mul_inv_cancel₀ ?_
  positivity

theorem orth_1_1_1_2 (n : ℕ) (hn : 5 ≤ n) :
    ∫ u : sphere (0 : E3) 1, Sidx (facTable (α := ℝ) n) 1 1 u.1 * Sidx (facTable (α := ℝ) n) 1 2 u.1 ∂σ = 0 := by
  simp only [Sidx_1_1 n (by omega), Sidx_1_2 n (by omega)]
  have e : ∀ u : sphere (0 : E3) 1, √(3 / (4 * π)) * u.1 2 * (√(3 / (4 * π)) * u.1 0)
      = (√(3 / (4 * π)) * (√(3 / (4 * π)))) * ([(1, 1, 0, 1)].map
          fun t : ℝ × ℕ × ℕ × ℕ => t.1 * mono t.2.1 t.2.2.1 t.2.2.2 u.1).sum := by
    intro u
    simp [mono]
    try ring
  rw [integral_congr_ae (.of_forall e), integral_const_mul, integral_polyList]
  have I : ([(1, 1, 0, 1)].map
      fun t : ℝ × ℕ × ℕ × ℕ => t.1 * monoInt t.2.1 t.2.2.1 t.2.2.2).sum = 0 := by
    simp [monoInt_closed, Nat.doubleFactorial]
    try ring
  rw [I, mul_zero]

theorem orth_1_1_2_0 (n : ℕ) (hn : 5 ≤ n) :
    ∫ u : sphere (0 : E3) 1, Sidx (facTable (α := ℝ) n) 1 1 u.1 * Sidx (facTable (α := ℝ) n) 2 0 u.1 ∂σ = 0 := by
  simp only [Sidx_1_1 n (by omega), Sidx_2_0 n (by omega)]
  have e : ∀ u : sphere (0 : E3) 1, √(3 / (4 * π)) * u.1 2 * (√(15 / (4 * π)) * (u.1 0 * u.1 1))
      = (√(3 / (4 * π)) * (√(15 / (4 * π)))) * ([(1, 1, 1, 1)].map
          fun t : ℝ × ℕ × ℕ × ℕ => t.1 * mono t.2.1 t.2.2.1 t.2.2.2 u.1).sum := by
    intro u
    simp [mono]
    try ring
  rw [integral_congr_ae (.of_forall e), integral_const_mul, integral_polyList]
  have I : ([(1, 1, 1, 1)].map
      fun t : ℝ × ℕ × ℕ × ℕ => t.1 * monoInt t.2.1 t.2.2.1 t.2.2.2).sum = 0 := by
    simp [monoInt_closed, Nat.doubleFactorial]
    try ring
  rw [I, mul_zero]

theorem orth_1_1_2_1 (n : ℕ) (hn : 5 ≤ n) :
    ∫ u : sphere (0 : E3) 1, Sidx (facTable (α := ℝ) n) 1 1 u.1 * Sidx (facTable (α := ℝ) n) 2 1 u.1 ∂σ = 0 := by
  simp only [Sidx_1_1 n (by omega), Sidx_2_1 n (by omega)]
  have e : ∀ u : sphere (0 : E3) 1, √(3 / (4 * π)) * u.1 2 * (√(15 / (4 * π)) * (u.1 1 * u.1 2))
      = (√(3 / (4 * π)) * (√(15 / (4 * π)))) * ([(1, 0, 1, 2)].map
          fun t : ℝ × ℕ × ℕ × ℕ => t.1 * mono t.2.1 t.2.2.1 t.2.2.2 u.1).sum := by
    intro u
    simp [mono]
    try ring
  rw [integral_congr_ae (.of_forall e), integral_const_mul, integral_polyList]
  have I : ([(1, 0, 1, 2)].map
      fun t : ℝ × ℕ × ℕ × ℕ => t.1 * monoInt t.2.1 t.2.2.1 t.2.2.2).sum = 0 := by
    simp [monoInt_closed, Nat.doubleFactorial]
    try ring
  rw [I, mul_zero]

theorem orth_1_1_2_2 (n : ℕ) (hn : 5 ≤ n) :
    ∫ u : sphere (0 : E3) 1, Sidx (facTable (α := ℝ) n) 1 1 u.1 * Sidx (facTable (α := ℝ) n) 2 2 u.1 ∂σ = 0 := by
  simp only [Sidx_1_1 n (by omega), Sidx_2_2 n (by omega)]
  have e : ∀ u : sphere (0 : E3) 1, √(3 / (4 * π)) * u.1 2 * (√(5 / (16 * π)) * (2 * u.1 2 ^ 2 - u.1 0 ^ 2 - u.1 1 ^ 2))
      = (√(3 / (4 * π)) * (√(5 / (16 * π)))) * ([(2, 0, 0, 3), (-1, 2, 0, 1), (-1, 0, 2, 1)].map
          fun t : ℝ × ℕ × ℕ × ℕ => t.1 * mono t.2.1 t.2.2.1 t.2.2.2 u.1).sum := by
    intro u
    simp [mono]
    try ring
  rw [integral_congr_ae (.of_forall e), integral_const_mul, integral_polyList]
  have I : ([(2, 0, 0, 3), (-1, 2, 0, 1), (-1, 0, 2, 1)].map
      fun t : ℝ × ℕ × ℕ × ℕ => t.1 * monoInt t.2.1 t.2.2.1 t.2.2.2).sum = 0 := by
    simp [monoInt_closed, Nat.doubleFactorial]
    try ring
  rw [I, mul_zero]

theorem orth_1_1_2_3 (n : ℕ) (hn : 5 ≤ n) :
    ∫ u : sphere (0 : E3) 1, Sidx (facTable (α := ℝ) n) 1 1 u.1 * Sidx (facTable (α := ℝ) n) 2 3 u.1 ∂σ = 0 := by
  simp only [Sidx_1_1 n (by omega), Sidx_2_3 n (by omega)]
  have e : ∀ u : sphere (0 : E3) 1, √(3 / (4 * π)) * u.1 2 * (√(15 / (4 * π)) * (u.1 0 * u.1 2))
      = (√(3 / (4 * π)) * (√(15 / (4 * π)))) * ([(1, 1, 0, 2)].map
          fun t : ℝ × ℕ × ℕ × ℕ => t.1 * mono t.2.1 t.2.2.1 t.2.2.2 u.1).sum := by
    intro u
    simp [mono]
    try ring
  rw [integral_congr_ae (.of_forall e), integral_const_mul, integral_polyList]
  have I : ([(1, 1, 0, 2)].map
      fun t : ℝ × ℕ × ℕ × ℕ => t.1 * monoInt t.2.1 t.2.2.1 t.2.2.2).sum = 0 := by
    simp [monoInt_closed, Nat.doubleFactorial]
    try ring
  rw [I, mul_zero]

theorem orth_1_1_2_4 (n : ℕ) (hn : 5 ≤ n) :
    ∫ u : sphere (0 : E3) 1, Sidx (facTable (α := ℝ) n) 1 1 u.1 * Sidx (facTable (α := ℝ) n) 2 4 u.1 ∂σ = 0 := by
  simp only [Sidx_1_1 n (by omega), Sidx_2_4 n (by omega)]
  have e : ∀ u : sphere (0 : E3) 1, √(3 / (4 * π)) * u.1 2 * (√(15 / (16 * π)) * (u.1 0 ^ 2 - u.1 1 ^ 2))
      = (√(3 / (4 * π)) * (√(15 / (16 * π)))) * ([(1, 2, 0, 1), (-1, 0, 2, 1)].map
          fun t : ℝ × ℕ × ℕ × ℕ => t.1 * mono t.2.1 t.2.2.1 t.2.2.2 u.1).sum := by
    intro u
    simp [mono]
    try ring
  rw [integral_congr_ae (.of_forall e), integral_const_mul, integral_polyList]
  have I : ([(1, 2, 0, 1), (-1, 0, 2, 1)].map
      fun t : ℝ × ℕ × ℕ × ℕ => t.1 * monoInt t.2.1 t.2.2.1 t.2.2.2).sum = 0 := by
    simp [monoInt_closed, Nat.doubleFactorial]
    try ring
  rw [I, mul_zero]

theorem orth_1_2_1_2 (n : ℕ) (hn : 5 ≤ n) :
    ∫ u : sphere (0 : E3) 1, Sidx (facTable (α := ℝ) n) 1 2 u.1 * Sidx (facTable (α := ℝ) n) 1 2 u.1 ∂σ = 1 := by
  simp only [Sidx_1_2 n (by omega), Sidx_1_2 n (by omega)]
  have e : ∀ u : sphere (0 : E3) 1, √(3 / (4 * π)) * u.1 0 * (√(3 / (4 * π)) * u.1 0)
      = (√(3 / (4 * π)) * (√(3 / (4 * π)))) * ([(1, 2, 0, 0)].map
          fun t : ℝ × ℕ × ℕ × ℕ => t.1 * mono t.2.1 t.2.2.1 t.2.2.2 u.1).sum := by
    intro u
    simp [mono]
    try ring
  rw [integral_congr_ae (.of_forall e), integral_const_mul, integral_polyList]
  rw [Real.mul_self_sqrt (by positivity)]
  have I : ([(1, 2, 0, 0)].map
      fun t : ℝ × ℕ × ℕ × ℕ => t.1 * monoInt t.2.1 t.2.2.1 t.2.2.2).sum = (3 / (4 * π))⁻¹ := by
    simp [monoInt_closed, Nat.doubleFactorial]
    try field_simp
    try ring
  rw [I]
  refine mul_inv_cancel₀ ?_
  positivity

theorem orth_1_2_2_0 (n : ℕ) (hn : 5 ≤ n) :
    ∫ u : sphere (0 : E3) 1, Sidx (facTable (α := ℝ) n) 1 2 u.1 * Sidx (facTable (α := ℝ) n) 2 0 u.1 ∂σ = 0 := by
  simp only [Sidx_1_2 n (by omega), Sidx_2_0 n (by omega)]
  have e : ∀ u : sphere (0 : E3) 1, √(3 / (4 * π)) * u.1 0 * (√(15 / (4 * π)) * (u.1 0 * u.1 1))
      = (√(3 / (4 * π)) * (√(15 / (4 * π)))) * ([(1, 2, 1, 0)].map
          fun t : ℝ × ℕ × ℕ × ℕ => t.1 * mono t.2.1 t.2.2.1 t.2.2.2 u.1).sum := by
    intro u
    simp [mono]
    try ring
  rw [integral_congr_ae (.of_forall e), integral_const_mul, integral_polyList]
  have I : ([(1, 2, 1, 0)].map
      fun t : ℝ × ℕ × ℕ × ℕ => t.1 * monoInt t.2.1 t.2.2.1 t.2.2.2).sum = 0 := by
    simp [monoInt_closed, Nat.doubleFactorial]
    try ring
  rw [I, mul_zero]

theorem orth_1_2_2_1 (n : ℕ) (hn : 5 ≤ n) :
    ∫ u : sphere (0 : E3) 1, Sidx (facTable (α := ℝ) n) 1 2 u.1 * Sidx (facTable (α := ℝ) n) 2 1 u.1 ∂σ = 0 := by
  simp only [Sidx_1_2 n (by omega), Sidx_2_1 n (by omega)]
  have e : ∀ u : sphere (0 : E3) 1, √(3 / (4 * π)) * u.1 0 * (√(15 / (4 * π)) * (u.1 1 * u.1 2))
      = (√(3 / (4 * π)) * (√(15 / (4 * π)))) * ([(1, 1, 1, 1)].map
          fun t : ℝ × ℕ × ℕ × ℕ => t.1 * mono t.2.1 t.2.2.1 t.2.2.2 u.1).sum := by
    intro u
    simp [mono]
    try ring
  rw [integral_congr_ae (.of_forall e), integral_const_mul, integral_polyList]
  have I : ([(1, 1, 1, 1)].map
      fun t : ℝ × ℕ × ℕ × ℕ => t.1 * monoInt t.2.1 t.2.2.1 t.2.2.2).sum = 0 := by
    simp [monoInt_closed, Nat.doubleFactorial]
    try ring
  rw [I, mul_zero]

theorem orth_1_2_2_2 (n : ℕ) (hn : 5 ≤ n) :
    ∫ u : sphere (0 : E3) 1, Sidx (facTable (α := ℝ) n) 1 2 u.1 * Sidx (facTable (α := ℝ) n) 2 2 u.1 ∂σ = 0 := by
  simp only [Sidx_1_2 n (by omega), Sidx_2_2 n (by omega)]
  have e : ∀ u : sphere (0 : E3) 1, √(3 / (4 * π)) * u.1 0 * (√(5 / (16 * π)) * (2 * u.1 2 ^ 2 - u.1 0 ^ 2 - u.1 1 ^ 2))
      = (√(3 / (4 * π)) * (√(5 / (16 * π)))) * ([(2, 1, 0, 2), (-1, 3, 0, 0), (-1, 1, 2, 0)].map
          fun t : ℝ × ℕ × ℕ × ℕ => t.1 * mono t.2.1 t.2.2.1 t.2.2.2 u.1).sum := by
    intro u
    simp [mono]
    try ring
  rw [integral_congr_ae (.of_forall e), integral_const_mul, integral_polyList]
  have I : ([(2, 1, 0, 2), (-1, 3, 0, 0), (-1, 1, 2, 0)].map
      fun t : ℝ × ℕ × ℕ × ℕ => t.1 * monoInt t.2.1 t.2.2.1 t.2.2.2).sum = 0 := by
    simp [monoInt_closed, Nat.doubleFactorial]
    try ring
  rw [I, mul_zero]

theorem orth_1_2_2_3 (n : ℕ) (hn : 5 ≤ n) :
    ∫ u : sphere (0 : E3) 1, Sidx (facTable (α := ℝ) n) 1 2 u.1 * Sidx (facTable (α := ℝ) n) 2 3 u.1 ∂σ = 0 := by
  simp only [Sidx_1_2 n (by omega), Sidx_2_3 n (by omega)]
  have e : ∀ u : sphere (0 : E3) 1, √(3 / (4 * π)) * u.1 0 * (√(15 / (4 * π)) * (u.1 0 * u.1 2))
      = (√(3 / (4 * π)) * (√(15 / (4 * π)))) * ([(1, 2, 0, 1)].map
          fun t : ℝ × ℕ × ℕ × ℕ => t.1 * mono t.2.1 t.2.2.1 t.2.2.2 u.1).sum := by
    intro u
    simp [mono]
    try ring
  rw [integral_congr_ae (.of_forall e), integral_const_mul, integral_polyList]
  have I : ([(1, 2, 0, 1)].map
      fun t : ℝ × ℕ × ℕ × ℕ => t.1 * monoInt t.2.1 t.2.2.1 t.2.2.2).sum = 0 := by
    simp [monoInt_closed, Nat.doubleFactorial]
    try ring
  rw [I, mul_zero]

theorem orth_1_2_2_4 (n : ℕ) (hn : 5 ≤ n) :
    ∫ u : sphere (0 : E3) 1, Sidx (facTable (α := ℝ) n) 1 2 u.1 * Sidx (facTable (α := ℝ) n) 2 4 u.1 ∂σ = 0 := by
  simp only [Sidx_1_2 n (by omega), Sidx_2_4 n (by omega)]
  have e : ∀ u : sphere (0 : E3) 1, √(3 / (4 * π)) * u.1 0 * (√(15 / (16 * π)) * (u.1 0 ^ 2 - u.1 1 ^ 2))
      = (√(3 / (4 * π)) * (√(15 / (16 * π)))) * ([(1, 3, 0, 0), (-1, 1, 2, 0)].map
          fun t : ℝ × ℕ × ℕ × ℕ => t.1 * mono t.2.1 t.2.2.1 t.2.2.2 u.1).sum := by
    intro u
    simp [mono]
    try ring
  rw [integral_congr_ae (.of_forall e), integral_const_mul, integral_polyList]
  have I : ([(1, 3, 0, 0), (-1, 1, 2, 0)].map
      fun t : ℝ × ℕ × ℕ × ℕ => t.1 * monoInt t.2.1 t.2.2.1 t.2.2.2).sum = 0 := by
    simp [monoInt_closed, Nat.doubleFactorial]
    try ring
  rw [I, mul_zero]

theorem orth_2_0_2_0 (n : ℕ) (hn : 5 ≤ n) :
    ∫ u : sphere (0 : E3) 1, Sidx (facTable (α := ℝ) n) 2 0 u.1 * Sidx (facTable (α := ℝ) n) 2 0 u.1 ∂σ = 1 := by
  simp only [Sidx_2_0 n (by omega), Sidx_2_0 n (by omega)]
  have e : ∀ u : sphere (0 : E3) 1, √(15 / (4 * π)) * (u.1 0 * u.1 1) * (√(15 / (4 * π)) * (u.1 0 * u.1 1))
      = (√(15 / (4 * π)) * (√(15 / (4 * π)))) * ([(1, 2, 2, 0)].map
          fun t : ℝ × ℕ × ℕ × ℕ => t.1 * mono t.2.1 t.2.2.1 t.2.2.2 u.1).sum := by
    intro u
    simp [mono]
    try ring
  rw [integral_congr_ae (.of_forall e), integral_const_mul, integral_polyList]
  rw [Real.mul_self_sqrt (by positivity)]
  have I : ([(1, 2, 2, 0)].map
      fun t : ℝ × ℕ × ℕ × ℕ => t.1 * monoInt t.2.1 t.2.2.1 t.2.2.2).sum = (15 / (4 * π))⁻¹ := by
    simp [monoInt_closed, Nat.doubleFactorial]
    try field_simp
    try ring
  rw [I]
  refine mul_inv_cancel₀ ?_
  positivity

theorem orth_2_0_2_1 (n : ℕ) (hn : 5 ≤ n) :
    ∫ u : sphere (0 : E3) 1, Sidx (facTable (α := ℝ) n) 2 0 u.1 * Sidx (facTable (α := ℝ) n) 2 1 u.1 ∂σ = 0 := by
  simp only [Sidx_2_0 n (by omega), Sidx_2_1 n (by omega)]
  have e : ∀ u : sphere (0 : E3) 1, √(15 / (4 * π)) * (u.1 0 * u.1 1) * (√(15 / (4 * π)) * (u.1 1 * u.1 2))
      = (√(15 / (4 * π)) * (√(15 / (4 * π)))) * ([(1, 1, 2, 1)].map
          fun t : ℝ × ℕ × ℕ × ℕ => t.1 * mono t.2.1 t.2.2.1 t.2.2.2 u.1).sum := by
    intro u
    simp [mono]
    try ring
  rw [integral_congr_ae (.of_forall e), integral_const_mul, integral_polyList]
  have I : ([(1, 1, 2, 1)].map
      fun t : ℝ × ℕ × ℕ × ℕ => t.1 * monoInt t.2.1 t.2.2.1 t.2.2.2).sum = 0 := by
    simp [monoInt_closed, Nat.doubleFactorial]
    try ring
  rw [I, mul_zero]

theorem orth_2_0_2_2 (n : ℕ) (hn : 5 ≤ n) :
    ∫ u : sphere (0 : E3) 1, Sidx (facTable (α := ℝ) n) 2 0 u.1 * Sidx (facTable (α := ℝ) n) 2 2 u.1 ∂σ = 0 := by
  simp only [Sidx_2_0 n (by omega), Sidx_2_2 n (by omega)]
  have e : ∀ u : sphere (0 : E3) 1, √(15 / (4 * π)) * (u.1 0 * u.1 1) * (√(5 / (16 * π)) * (2 * u.1 2 ^ 2 - u.1 0 ^ 2 - u.1 1 ^ 2))
      = (√(15 / (4 * π)) * (√(5 / (16 * π)))) * ([(2, 1, 1, 2), (-1, 3, 1, 0), (-1, 1, 3, 0)].map
          fun t : ℝ × ℕ × ℕ × ℕ => t.1 * mono t.2.1 t.2.2.1 t.2.2.2 u.1).sum := by
    intro u
    simp [mono]
    try ring
  rw [integral_congr_ae (.of_forall e), integral_const_mul, integral_polyList]
  have I : ([(2, 1, 1, 2), (-1, 3, 1, 0), (-1, 1, 3, 0)].map
      fun t : ℝ × ℕ × ℕ × ℕ => t.1 * monoInt t.2.1 t.2.2.1 t.2.2.2).sum = 0 := by
    simp [monoInt_closed, Nat.doubleFactorial]
    try ring
  rw [I, mul_zero]

theorem orth_2_0_2_3 (n : ℕ) (hn : 5 ≤ n) :
    ∫ u : sphere (0 : E3) 1, Sidx (facTable (α := ℝ) n) 2 0 u.1 * Sidx (facTable (α := ℝ) n) 2 3 u.1 ∂σ = 0 := by
  simp only [Sidx_2_0 n (by omega), Sidx_2_3 n (by omega)]
  have e : ∀ u : sphere (0 : E3) 1, √(15 / (4 * π)) * (u.1 0 * u.1 1) * (√(15 / (4 * π)) * (u.1 0 * u.1 2))
      = (√(15 / (4 * π)) * (√(15 / (4 * π)))) * ([(1, 2, 1, 1)].map
          fun t : ℝ × ℕ × ℕ × ℕ => t.1 * mono t.2.1 t.2.2.1 t.2.2.2 u.1).sum := by
    intro u
    simp [mono]
    try ring
  rw [integral_congr_ae (.of_forall e), integral_const_mul, integral_polyList]
  have I : ([(1, 2, 1, 1)].map
      fun t : ℝ × ℕ × ℕ × ℕ => t.1 * monoInt t.2.1 t.2.2.1 t.2.2.2).sum = 0 := by
    simp [monoInt_closed, Nat.doubleFactorial]
    try ring
  rw [I, mul_zero]

theorem orth_2_0_2_4 (n : ℕ) (hn : 5 ≤ n) :
    ∫ u : sphere (0 : E3) 1, Sidx (facTable (α := ℝ) n) 2 0 u.1 * Sidx (facTable (α := ℝ) n) 2 4 u.1 ∂σ = 0 := by
  simp only [Sidx_2_0 n (by omega), Sidx_2_4 n (by omega)]
  have e : ∀ u : sphere (0 : E3) 1, √(15 / (4 * π)) * (u.1 0 * u.1 1) * (√(15 / (16 * π)) * (u.1 0 ^ 2 - u.1 1 ^ 2))
      = (√(15 / (4 * π)) * (√(15 / (16 * π)))) * ([(1, 3, 1, 0), (-1, 1, 3, 0)].map
          fun t : ℝ × ℕ × ℕ × ℕ => t.1 * mono t.2.1 t.2.2.1 t.2.2.2 u.1).sum := by
    intro u
    simp [mono]
    try ring
  rw [integral_congr_ae (.of_forall e), integral_const_mul, integral_polyList]
  have I : ([(1, 3, 1, 0), (-1, 1, 3, 0)].map
      fun t : ℝ × ℕ × ℕ × ℕ => t.1 * monoInt t.2.1 t.2.2.1 t.2.2.2).sum = 0 := by
    simp [monoInt_closed, Nat.doubleFactorial]
    try ring
  rw [I, mul_zero]

theorem orth_2_1_2_1 (n : ℕ) (hn : 5 ≤ n) :
    ∫ u : sphere (0 : E3) 1, Sidx (facTable (α := ℝ) n) 2 1 u.1 * Sidx (facTable (α := ℝ) n) 2 1 u.1 ∂σ = 1 := by
  simp only [Sidx_2_1 n (by omega), Sidx_2_1 n (by omega)]
  have e : ∀ u : sphere (0 : E3) 1, √(15 / (4 * π)) * (u.1 1 * u.1 2) * (√(15 / (4 * π)) * (u.1 1 * u.1 2))
      = (√(15 / (4 * π)) * (√(15 / (4 * π)))) * ([(1, 0, 2, 2)].map
          fun t : ℝ × ℕ × ℕ × ℕ => t.1 * mono t.2.1 t.2.2.1 t.2.2.2 u.1).sum := by
    intro u
    simp [mono]
    try ring
  rw [integral_congr_ae (.of_forall e), integral_const_mul, integral_polyList]
  rw [Real.mul_self_sqrt (by positivity)]
  have I : ([(1, 0, 2, 2)].map
      fun t : ℝ × ℕ × ℕ × ℕ => t.1 * monoInt t.2.1 t.2.2.1 t.2.2.2).sum = (15 / (4 * π))⁻¹ := by
    simp [monoInt_closed, Nat.doubleFactorial]
    try field_simp
    try ring
  rw [I]
  refine mul_inv_cancel₀ ?_
  positivity

theorem orth_2_1_2_2 (n : ℕ) (hn : 5 ≤ n) :
    ∫ u : sphere (0 : E3) 1, Sidx (facTable (α := ℝ) n) 2 1 u.1 * Sidx (facTable (α := ℝ) n) 2 2 u.1 ∂σ = 0 := by
  simp only [Sidx_2_1 n (by omega), Sidx_2_2 n (by omega)]
  have e : ∀ u : sphere (0 : E3) 1, √(15 / (4 * π)) * (u.1 1 * u.1 2) * (√(5 / (16 * π)) * (2 * u.1 2 ^ 2 - u.1 0 ^ 2 - u.1 1 ^ 2))
      = (√(15 / (4 * π)) * (√(5 / (16 * π)))) * ([(2, 0, 1, 3), (-1, 2, 1, 1), (-1, 0, 3, 1)].map
          fun t : ℝ × ℕ × ℕ × ℕ => t.1 * mono t.2.1 t.2.2.1 t.2.2.2 u.1).sum := by
    intro u
    simp [mono]
    try ring
  rw [integral_congr_ae (.of_forall e), integral_const_mul, integral_polyList]
  have I : ([(2, 0, 1, 3), (-1, 2, 1, 1), (-1, 0, 3, 1)].map
      fun t : ℝ × ℕ × ℕ × ℕ => t.1 * monoInt t.2.1 t.2.2.1 t.2.2.2).sum = 0 := by
    simp [monoInt_closed, Nat.doubleFactorial]
    try ring
  rw [I, mul_zero]

theorem orth_2_1_2_3 (n : ℕ) (hn : 5 ≤ n) :
    ∫ u : sphere (0 : E3) 1, Sidx (facTable (α := ℝ) n) 2 1 u.1 * Sidx (facTable (α := ℝ) n) 2 3 u.1 ∂σ = 0 := by
  simp only [Sidx_2_1 n (by omega), Sidx_2_3 n (by omega)]
  have e : ∀ u : sphere (0 : E3) 1, √(15 / (4 * π)) * (u.1 1 * u.1 2) * (√(15 / (4 * π)) * (u.1 0 * u.1 2))
      = (√(15 / (4 * π)) * (√(15 / (4 * π)))) * ([(1, 1, 1, 2)].map
          fun t : ℝ × ℕ × ℕ × ℕ => t.1 * mono t.2.1 t.2.2.1 t.2.2.2 u.1).sum := by
    intro u
    simp [mono]
    try ring
  rw [integral_congr_ae (.of_forall e), integral_const_mul, integral_polyList]
  have I : ([(1, 1, 1, 2)].map
      fun t : ℝ × ℕ × ℕ × ℕ => t.1 * monoInt t.2.1 t.2.2.1 t.2.2.2).sum = 0 := by
    simp [monoInt_closed, Nat.doubleFactorial]
    try ring
  rw [I, mul_zero]

theorem orth_2_1_2_4 (n : ℕ) (hn : 5 ≤ n) :
    ∫ u : sphere (0 : E3) 1, Sidx (facTable (α := ℝ) n) 2 1 u.1 * Sidx (facTable (α := ℝ) n) 2 4 u.1 ∂σ = 0 := by
  simp only [Sidx_2_1 n (by omega), Sidx_2_4 n (by omega)]
  have e : ∀ u : sphere (0 : E3) 1, √(15 / (4 * π)) * (u.1 1 * u.1 2) * (√(15 / (16 * π)) * (u.1 0 ^ 2 - u.1 1 ^ 2))
      = (√(15 / (4 * π)) * (√(15 / (16 * π)))) * ([(1, 2, 1, 1), (-1, 0, 3, 1)].map
          fun t : ℝ × ℕ × ℕ × ℕ => t.1 * mono t.2.1 t.2.2.1 t.2.2.2 u.1).sum := by
    intro u
    simp [mono]
    try ring
  rw [integral_congr_ae (.of_forall e), integral_const_mul, integral_polyList]
  have I : ([(1, 2, 1, 1), (-1, 0, 3, 1)].map
      fun t : ℝ × ℕ × ℕ × ℕ => t.1 * monoInt t.2.1 t.2.2.1 t.2.2.2).sum = 0 := by
    simp [monoInt_closed, Nat.doubleFactorial]
    try ring
  rw [I, mul_zero]

theorem orth_2_2_2_2 (n : ℕ) (hn : 5 ≤ n) :
    ∫ u : sphere (0 : E3) 1, Sidx (facTable (α := ℝ) n) 2 2 u.1 * Sidx (facTable (α := ℝ) n) 2 2 u.1 ∂σ = 1 := by
  simp only [Sidx_2_2 n (by omega), Sidx_2_2 n (by omega)]
  have e : ∀ u : sphere (0 : E3) 1, √(5 / (16 * π)) * (2 * u.1 2 ^ 2 - u.1 0 ^ 2 - u.1 1 ^ 2) * (√(5 / (16 * π)) * (2 * u.1 2 ^ 2 - u.1 0 ^ 2 - u.1 1 ^ 2))
      = (√(5 / (16 * π)) * (√(5 / (16 * π)))) * ([(4, 0, 0, 4), (-4, 2, 0, 2), (-4, 0, 2, 2), (1, 4, 0, 0), (2, 2, 2, 0), (1, 0, 4, 0)].map
          fun t : ℝ × ℕ × ℕ × ℕ => t.1 * mono t.2.1 t.2.2.1 t.2.2.2 u.1).sum := by
    intro u
    simp [mono]
    try ring
  rw [integral_congr_ae (.of_forall e), integral_const_mul, integral_polyList]
  rw [Real.mul_self_sqrt (by positivity)]
  have I : ([(4, 0, 0, 4), (-4, 2, 0, 2), (-4, 0, 2, 2), (1, 4, 0, 0), (2, 2, 2, 0), (1, 0, 4, 0)].map
      fun t : ℝ × ℕ × ℕ × ℕ => t.1 * monoInt t.2.1 t.2.2.1 t.2.2.2).sum = (5 / (16 * π))⁻¹ := by
    simp [monoInt_closed, Nat.doubleFactorial]
    try field_simp
    try ring
  rw [I]
  refine mul_inv_cancel₀ ?_
  positivity

theorem orth_2_2_2_3 (n : ℕ) (hn : 5 ≤ n) :
    ∫ u : sphere (0 : E3) 1, Sidx (facTable (α := ℝ) n) 2 2 u.1 * Sidx (facTable (α := ℝ) n) 2 3 u.1 ∂σ = 0 := by
  simp only [Sidx_2_2 n (by omega), Sidx_2_3 n (by omega)]
  have e : ∀ u : sphere (0 : E3) 1, √(5 / (16 * π)) * (2 * u.1 2 ^ 2 - u.1 0 ^ 2 - u.1 1 ^ 2) * (√(15 / (4 * π)) * (u.1 0 * u.1 2))
      = (√(5 / (16 * π)) * (√(15 / (4 * π)))) * ([(2, 1, 0, 3), (-1, 3, 0, 1), (-1, 1, 2, 1)].map
          fun t : ℝ × ℕ × ℕ × ℕ => t.1 * mono t.2.1 t.2.2.1 t.2.2.2 u.1).sum := by
    intro u
    simp [mono]
    try ring
  rw [integral_congr_ae (.of_forall e), integral_const_mul, integral_polyList]
  have I : ([(2, 1, 0, 3), (-1, 3, 0, 1), (-1, 1, 2, 1)].map
      fun t : ℝ × ℕ × ℕ × ℕ => t.1 * monoInt t.2.1 t.2.2.1 t.2.2.2).sum = 0 := by
    simp [monoInt_closed, Nat.doubleFactorial]
    try ring
  rw [I, mul_zero]

theorem orth_2_2_2_4 (n : ℕ) (hn : 5 ≤ n) :
    ∫ u : sphere (0 : E3) 1, Sidx (facTable (α := ℝ) n) 2 2 u.1 * Sidx (facTable (α := ℝ) n) 2 4 u.1 ∂σ = 0 := by
  simp only [Sidx_2_2 n (by omega), Sidx_2_4 n (by omega)]
  have e : ∀ u : sphere (0 : E3) 1, √(5 / (16 * π)) * (2 * u.1 2 ^ 2 - u.1 0 ^ 2 - u.1 1 ^ 2) * (√(15 / (16 * π)) * (u.1 0 ^ 2 - u.1 1 ^ 2))
      = (√(5 / (16 * π)) * (√(15 / (16 * π)))) * ([(2, 2, 0, 2), (-2, 0, 2, 2), (-1, 4, 0, 0), (0, 2, 2, 0), (1, 0, 4, 0)].map
          fun t : ℝ × ℕ × ℕ × ℕ => t.1 * mono t.2.1 t.2.2.1 t.2.2.2 u.1).sum := by
    intro u
    simp [mono]
    try ring
  rw [integral_congr_ae (.of_forall e), integral_const_mul, integral_polyList]
  have I : ([(2, 2, 0, 2), (-2, 0, 2, 2), (-1, 4, 0, 0), (0, 2, 2, 0), (1, 0, 4, 0)].map
      fun t : ℝ × ℕ × ℕ × ℕ => t.1 * monoInt t.2.1 t.2.2.1 t.2.2.2).sum = 0 := by
    simp [monoInt_closed, Nat.doubleFactorial]
    try ring
  rw [I, mul_zero]

theorem orth_2_3_2_3 (n : ℕ) (hn : 5 ≤ n) :
    ∫ u : sphere (0 : E3) 1, Sidx (facTable (α := ℝ) n) 2 3 u.1 * Sidx (facTable (α := ℝ) n) 2 3 u.1 ∂σ = 1 := by
  simp only [Sidx_2_3 n (by omega), Sidx_2_3 n (by omega)]
  have e : ∀ u : sphere (0 : E3) 1, √(15 / (4 * π)) * (u.1 0 * u.1 2) * (√(15 / (4 * π)) * (u.1 0 * u.1 2))
      = (√(15 / (4 * π)) * (√(15 / (4 * π)))) * ([(1, 2, 0, 2)].map
          fun t : ℝ × ℕ × ℕ × ℕ => t.1 * mono t.2.1 t.2.2.1 t.2.2.2 u.1).sum := by
    intro u
    simp [mono]
    try ring
  rw [integral_congr_ae (.of_forall e), integral_const_mul, integral_polyList]
  rw [Real.mul_self_sqrt (by positivity)]
  have I : ([(1, 2, 0, 2)].map
      fun t : ℝ × ℕ × ℕ × ℕ => t.1 * monoInt t.2.1 t.2.2.1 t.2.2.2).sum = (15 / (4 * π))⁻¹ := by
    simp [monoInt_closed, Nat.doubleFactorial]
    try field_simp
    try ring
  rw [I]
  refine mul_inv_cancel₀ ?_
  positivity

theorem orth_2_3_2_4 (n : ℕ) (hn : 5 ≤ n) :
    ∫ u : sphere (0 : E3) 1, Sidx (facTable (α := ℝ) n) 2 3 u.1 * Sidx (facTable (α := ℝ) n) 2 4 u.1 ∂σ = 0 := by
  simp only [Sidx_2_3 n (by omega), Sidx_2_4 n (by omega)]
  have e : ∀ u : sphere (0 : E3) 1, √(15 / (4 * π)) * (u.1 0 * u.1 2) * (√(15 / (16 * π)) * (u.1 0 ^ 2 - u.1 1 ^ 2))
      = (√(15 / (4 * π)) * (√(15 / (16 * π)))) * ([(1, 3, 0, 1), (-1, 1, 2, 1)].map
          fun t : ℝ × ℕ × ℕ × ℕ => t.1 * mono t.2.1 t.2.2.1 t.2.2.2 u.1).sum := by
    intro u
    simp [mono]
    try ring
  rw [integral_congr_ae (.of_forall e), integral_const_mul, integral_polyList]
  have I : ([(1, 3, 0, 1), (-1, 1, 2, 1)].map
      fun t : ℝ × ℕ × ℕ × ℕ => t.1 * monoInt t.2.1 t.2.2.1 t.2.2.2).sum = 0 := by
    simp [monoInt_closed, Nat.doubleFactorial]
    try ring
  rw [I, mul_zero]

theorem orth_2_4_2_4 (n : ℕ) (hn : 5 ≤ n) :
    ∫ u : sphere (0 : E3) 1, Sidx (facTable (α := ℝ) n) 2 4 u.1 * Sidx (facTable (α := ℝ) n) 2 4 u.1 ∂σ = 1 := by
  simp only [Sidx_2_4 n (by omega), Sidx_2_4 n (by omega)]
  have e : ∀ u : sphere (0 : E3) 1, √(15 / (16 * π)) * (u.1 0 ^ 2 - u.1 1 ^ 2) * (√(15 / (16 * π)) * (u.1 0 ^ 2 - u.1 1 ^ 2))
      = (√(15 / (16 * π)) * (√(15 / (16 * π)))) * ([(1, 4, 0, 0), (-2, 2, 2, 0), (1, 0, 4, 0)].map
          fun t : ℝ × ℕ × ℕ × ℕ => t.1 * mono t.2.1 t.2.2.1 t.2.2.2 u.1).sum := by
    intro u
    simp [mono]
    try ring
  rw [integral_congr_ae (.of_forall e), integral_const_mul, integral_polyList]
  rw [Real.mul_self_sqrt (by positivity)]
  have I : ([(1, 4, 0, 0), (-2, 2, 2, 0), (1, 0, 4, 0)].map
      fun t : ℝ × ℕ × ℕ × ℕ => t.1 * monoInt t.2.1 t.2.2.1 t.2.2.2).sum = (15 / (16 * π))⁻¹ := by
    simp [monoInt_closed, Nat.doubleFactorial]
    try field_simp
    try ring
  rw [I]
  refine mul_inv_cancel₀ ?_
  positivity

theorem Sidx_mul_comm (fac : Array ℝ) (a ia b ib : ℕ) :
    ∫ u : sphere (0 : E3) 1, Sidx fac a ia u.1 * Sidx fac b ib u.1 ∂σ
      = ∫ u : sphere (0 : E3) 1, Sidx fac b ib u.1 * Sidx fac a ia u.1 ∂σ := by
  simp only [mul_comm]

/-- **Stage 4**: the model's harmonic polynomials of order ≤ 2 are orthonormal on the sphere -/
theorem Sidx_orthonormal (n : ℕ) (hn : 5 ≤ n) (a ia b ib : ℕ) (ha : a ≤ 2) (hb : b ≤ 2) (hia : ia ≤ 2 * a)
    (hib : ib ≤ 2 * b) :
    ∫ u : sphere (0 : E3) 1, Sidx (facTable (α := ℝ) n) a ia u.1 * Sidx (facTable (α := ℝ) n) b ib u.1 ∂σ
      = if a = b ∧ ia = ib then 1 else 0 := by
  interval_cases a <;> interval_cases ia <;> interval_cases b <;> interval_cases ib <;>
  first
    | (rw [orth_0_0_0_0 n hn]; norm_num)
    | (rw [orth_0_0_1_0 n hn]; norm_num)
    | (rw [orth_0_0_1_1 n hn]; norm_num)
    | (rw [orth_0_0_1_2 n hn]; norm_num)
    | (rw [orth_0_0_2_0 n hn]; norm_num)
    | (rw [orth_0_0_2_1 n hn]; norm_num)
    | (rw [orth_0_0_2_2 n hn]; norm_num)
    | (rw [orth_0_0_2_3 n hn]; norm_num)
    | (rw [orth_0_0_2_4 n hn]; norm_num)
    | (rw [orth_1_0_1_0 n hn]; norm_num)
    | (rw [orth_1_0_1_1 n hn]; norm_num)
    | (rw [orth_1_0_1_2 n hn]; norm_num)
    | (rw [orth_1_0_2_0 n hn]; norm_num)
    | (rw [orth_1_0_2_1 n hn]; norm_num)
    | (rw [orth_1_0_2_2 n hn]; norm_num)
    | (rw [orth_1_0_2_3 n hn]; norm_num)
    | (rw [orth_1_0_2_4 n hn]; norm_num)
    | (rw [orth_1_1_1_1 n hn]; norm_num)
    | (rw [orth_1_1_1_2 n hn]; norm_num)
    | (rw [orth_1_1_2_0 n hn]; norm_num)
    | (rw [orth_1_1_2_1 n hn]; norm_num)
    | (rw [orth_1_1_2_2 n hn]; norm_num)
    | (rw [orth_1_1_2_3 n hn]; norm_num)
    | (rw [orth_1_1_2_4 n hn]; norm_num)
    | (rw [orth_1_2_1_2 n hn]; norm_num)
    | (rw [orth_1_2_2_0 n hn]; norm_num)
    | (rw [orth_1_2_2_1 n hn]; norm_num)
    | (rw [orth_1_2_2_2 n hn]; norm_num)
    | (rw [orth_1_2_2_3 n hn]; norm_num)
    | (rw [orth_1_2_2_4 n hn]; norm_num)
    | (rw [orth_2_0_2_0 n hn]; norm_num)
    | (rw [orth_2_0_2_1 n hn]; norm_num)
    | (rw [orth_2_0_2_2 n hn]; norm_num)
    | (rw [orth_2_0_2_3 n hn]; norm_num)
    | (rw [orth_2_0_2_4 n hn]; norm_num)
    | (rw [orth_2_1_2_1 n hn]; norm_num)
    | (rw [orth_2_1_2_2 n hn]; norm_num)
    | (rw [orth_2_1_2_3 n hn]; norm_num)
    | (rw [orth_2_1_2_4 n hn]; norm_num)
    | (rw [orth_2_2_2_2 n hn]; norm_num)
    | (rw [orth_2_2_2_3 n hn]; norm_num)
    | (rw [orth_2_2_2_4 n hn]; norm_num)
    | (rw [orth_2_3_2_3 n hn]; norm_num)
    | (rw [orth_2_3_2_4 n hn]; norm_num)
    | (rw [orth_2_4_2_4 n hn]; norm_num)
    | (rw [Sidx_mul_comm, orth_0_0_0_0 n hn]; norm_num)
    | (rw [Sidx_mul_comm, orth_0_0_1_0 n hn]; norm_num)
    | (rw [Sidx_mul_comm, orth_0_0_1_1 n hn]; norm_num)
    | (rw [Sidx_mul_comm, orth_0_0_1_2 n hn]; norm_num)
    | (rw [Sidx_mul_comm, orth_0_0_2_0 n hn]; norm_num)
    | (rw [Sidx_mul_comm, orth_0_0_2_1 n hn]; norm_num)
    | (rw [Sidx_mul_comm, orth_0_0_2_2 n hn]; norm_num)
    | (rw [Sidx_mul_comm, orth_0_0_2_3 n hn]; norm_num)
    | (rw [Sidx_mul_comm, orth_0_0_2_4 n hn]; norm_num)
    | (rw [Sidx_mul_comm, orth_1_0_1_0 n hn]; norm_num)
    | (rw [Sidx_mul_comm, orth_1_0_1_1 n hn]; norm_num)
    | (rw [Sidx_mul_comm, orth_1_0_1_2 n hn]; norm_num)
    | (rw [Sidx_mul_comm, orth_1_0_2_0 n hn]; norm_num)
    | (rw [Sidx_mul_comm, orth_1_0_2_1 n hn]; norm_num)
    | (rw [Sidx_mul_comm, orth_1_0_2_2 n hn]; norm_num)
    | (rw [Sidx_mul_comm, orth_1_0_2_3 n hn]; norm_num)
    | (rw [Sidx_mul_comm, orth_1_0_2_4 n hn]; norm_num)
    | (rw [Sidx_mul_comm, orth_1_1_1_1 n hn]; norm_num)
    | (rw [Sidx_mul_comm, orth_1_1_1_2 n hn]; norm_num)
    | (rw [Sidx_mul_comm, orth_1_1_2_0 n hn]; norm_num)
    | (rw [Sidx_mul_comm, orth_1_1_2_1 n hn]; norm_num)
    | (rw [Sidx_mul_comm, orth_1_1_2_2 n hn]; norm_num)
    | (rw [Sidx_mul_comm, orth_1_1_2_3 n hn]; norm_num)
    | (rw [Sidx_mul_comm, orth_1_1_2_4 n hn]; norm_num)
    | (rw [Sidx_mul_comm, orth_1_2_1_2 n hn]; norm_num)
    | (rw [Sidx_mul_comm, orth_1_2_2_0 n hn]; norm_num)
    | (rw [Sidx_mul_comm, orth_1_2_2_1 n hn]; norm_num)
    | (rw [Sidx_mul_comm, orth_1_2_2_2 n hn]; norm_num)
    | (rw [Sidx_mul_comm, orth_1_2_2_3 n hn]; norm_num)
    | (rw [Sidx_mul_comm, orth_1_2_2_4 n hn]; norm_num)
    | (rw [Sidx_mul_comm, orth_2_0_2_0 n hn]; norm_num)
    | (rw [Sidx_mul_comm, orth_2_0_2_1 n hn]; norm_num)
    | (rw [Sidx_mul_comm, orth_2_0_2_2 n hn]; norm_num)
    | (rw [Sidx_mul_comm, orth_2_0_2_3 n hn]; norm_num)
    | (rw [Sidx_mul_comm, orth_2_0_2_4 n hn]; norm_num)
    | (rw [Sidx_mul_comm, orth_2_1_2_1 n hn]; norm_num)
    | (rw [Sidx_mul_comm, orth_2_1_2_2 n hn]; norm_num)
    | (rw [Sidx_mul_comm, orth_2_1_2_3 n hn]; norm_num)
    | (rw [Sidx_mul_comm, orth_2_1_2_4 n hn]; norm_num)
    | (rw [Sidx_mul_comm, orth_2_2_2_2 n hn]; norm_num)
    | (rw [Sidx_mul_comm, orth_2_2_2_3 n hn]; norm_num)
    | (rw [Sidx_mul_comm, orth_2_2_2_4 n hn]; norm_num)
    | (rw [Sidx_mul_comm, orth_2_3_2_3 n hn]; norm_num)
    | (rw [Sidx_mul_comm, orth_2_3_2_4 n hn]; norm_num)
    | (rw [Sidx_mul_comm, orth_2_4_2_4 n hn]; norm_num)

end Ecpint.C13d
