/-
C15c — the executable quadrature model (Ecpint/Model/Quad.lean), instantiated at ℝ, computes the Pérez-Jordá rule of C15b:
in exact arithmetic the value returned by `integrate` IS `rule F n` for the level n at which it stops.

  Stage 1  `instNumReal : Num ℝ`.  `initGrid_spec` / `initGrid_onePoint` / `initGrid_twoPoint`: for every odd grid size
           N = 2M+1 the fold of `initGrid` leaves `w[i] = sin⁴ θ_{i+1}`, `x[i] = −x(θ_{i+1})`, θ_j = jπ/(N+1), for ALL i < N
           (`IsPJGrid`; midpoint x = 0, w = 1; second half by `xOf (π − θ) = −xOf θ`); the size chosen from `points` is
           2^P − 1 resp. 3·2^P − 1 (`gridPower_onePoint`, `gridPower_twoPoint`, exact logarithms).  So
           `w[i]·F(x[i]) = term (F ∘ neg) N (i+1)` (`IsPJGrid.term_eq`) and the rule is symmetric (`rule_neg`).
  Stage 2  `sumTerms_eq` (what `sumTerms` adds, any window), `sumTerms_full`, `onePoint_step` (= `T_onePoint_step`),
           `onePointLoop_spec` (loop invariant), `integrate_onePoint_rule`, `integrate_onePoint`, `integrate_initGrid_onePoint`.
  Stage 3  `twoPoint_step` (= `T_twoPoint_step`), `twoPointLoop_spec`, `integrate_twoPoint_rule`, `integrate_twoPoint`,
           `integrate_initGrid_twoPoint`.
  Stage 4  `sumTerms_window` (exact excess over the windowed integrand), `sumTerms_window_counterexample`,
           `integrate_window_of_zero` (window harmless when the integrand vanishes outside it).
  Stage 5  `transformRMinMax_term`, `transformZeroInf_term`, `integrate_{one,two}Point_{rMinMax,zeroInf}`,
           `rMinMax_rule_tendsto`.
Not proved: anything about the acceptance tests (which level is chosen) beyond "flag false ⇒ finest rule".
-/
import Ecpint.Props.C15
import Ecpint.Props.C15b
import Mathlib.Algebra.Order.Floor.Defs
import Mathlib.Algebra.Order.Floor.Semiring
import Mathlib.Algebra.BigOperators.Intervals

namespace Ecpint.C15c
open Ecpint.Quad Ecpint.C15 Ecpint.C15b Real Ecpint.QuadLemmas Filter Topology

/-! ### Stage 1: the model at ℝ, and the grid -/

/-- exact real arithmetic as a scalar type of the quadrature model -/
noncomputable instance instNumReal : Ecpint.Quad.Num ℝ where
  sin := Real.sin
  cos := Real.cos
  log := Real.log
  sqrt := Real.sqrt
  abs := fun x => |x|
  pi := Real.pi
  floorNat := fun x => ⌊x⌋₊
  decLt := fun _ _ => Classical.propDecidable _
  decLe := fun _ _ => Classical.propDecidable _

/-- reading an array with `[i]!` (whatever the `Inhabited` instance) when `[i]?` is known -/
theorem getElemBang_of_getElemOpt {inst : Inhabited ℝ} (a : Array ℝ) (i : ℕ) (v : ℝ) (h : a[i]? = some v) :
    a[i]! = v := by
  rw [getElem!_def, h]

theorem getElemOpt_setBang (a : Array ℝ) (i j : ℕ) (v : ℝ) :
    (a.set! i v)[j]? = if i = j then if i < a.size then some v else none else a[j]? := by
  rw [Array.set!_eq_setIfInBounds, Array.getElem?_setIfInBounds]

theorem size_setBang (a : Array ℝ) (i : ℕ) (v : ℝ) : (a.set! i v).size = a.size := by
  rw [Array.set!_eq_setIfInBounds, Array.size_setIfInBounds]

/-- the triple carried by the loop of `initGrid` after n steps -/
noncomputable def trip (z1 c1 s1 : ℝ) (init : ℝ × ℝ × ℝ) (n : ℕ) : ℝ × ℝ × ℝ := (trigStep z1 c1 s1)^[n] init

/-- the loop of `initGrid`, first k iterations -/
noncomputable def gridFold (N : ℕ) (z1 c1 s1 o : ℝ) (x0 w0 : Array ℝ) (init : ℝ × ℝ × ℝ) (k : ℕ) :
    Array ℝ × Array ℝ × (ℝ × ℝ × ℝ) :=
  (List.range k).foldl (gridStep N z1 c1 s1 o) (x0, w0, init)

theorem gridFold_succ (N : ℕ) (z1 c1 s1 o : ℝ) (x0 w0 : Array ℝ) (init : ℝ × ℝ × ℝ) (k : ℕ) :
    gridFold N z1 c1 s1 o x0 w0 init (k + 1) = gridStep N z1 c1 s1 o (gridFold N z1 c1 s1 o x0 w0 init k) k := by
  simp only [gridFold, List.range_succ, List.foldl_append, List.foldl_cons, List.foldl_nil]

theorem gridStep_eq (N : ℕ) (z1 c1 s1 o : ℝ) (acc : Array ℝ × Array ℝ × (ℝ × ℝ × ℝ)) (n : ℕ) :
    gridStep N z1 c1 s1 o acc n =
      ((acc.1.set! (N - 1 - n) (nodeX o acc.2.2.1 acc.2.2.2.1 acc.2.2.2.2)).set! n
          (-(nodeX o acc.2.2.1 acc.2.2.2.1 acc.2.2.2.2)),
       (acc.2.1.set! (N - 1 - n) (nodeW acc.2.2.2.1)).set! n (nodeW acc.2.2.2.1),
       trigStep z1 c1 s1 acc.2.2) := rfl

/-- abscissa / weight computed from the triple after n steps -/
noncomputable def Xn (z1 c1 s1 o : ℝ) (init : ℝ × ℝ × ℝ) (n : ℕ) : ℝ :=
  nodeX o (trip z1 c1 s1 init n).1 (trip z1 c1 s1 init n).2.1 (trip z1 c1 s1 init n).2.2
noncomputable def Wn (z1 c1 s1 : ℝ) (init : ℝ × ℝ × ℝ) (n : ℕ) : ℝ := nodeW (trip z1 c1 s1 init n).2.1

/-- invariant of the loop of `initGrid` (N = 2M+1, k ≤ M iterations done): the recurrence has advanced k steps, the
first k entries and the last k entries hold the (negated / mirrored) nodes, the rest is untouched -/
theorem gridFold_spec (M : ℕ) (z1 c1 s1 o : ℝ) (x0 w0 : Array ℝ) (init : ℝ × ℝ × ℝ)
    (hx0 : x0.size = 2 * M + 1) (hw0 : w0.size = 2 * M + 1) (k : ℕ) (hk : k ≤ M) :
    (gridFold (2 * M + 1) z1 c1 s1 o x0 w0 init k).2.2 = trip z1 c1 s1 init k ∧
    (gridFold (2 * M + 1) z1 c1 s1 o x0 w0 init k).1.size = 2 * M + 1 ∧
    (gridFold (2 * M + 1) z1 c1 s1 o x0 w0 init k).2.1.size = 2 * M + 1 ∧
    (∀ i, i < 2 * M + 1 → (gridFold (2 * M + 1) z1 c1 s1 o x0 w0 init k).1[i]? =
      if i < k then some (-(Xn z1 c1 s1 o init i)) else
        if 2 * M - k < i then some (Xn z1 c1 s1 o init (2 * M - i)) else x0[i]?) ∧
    (∀ i, i < 2 * M + 1 → (gridFold (2 * M + 1) z1 c1 s1 o x0 w0 init k).2.1[i]? =
      if i < k then some (Wn z1 c1 s1 init i) else
        if 2 * M - k < i then some (Wn z1 c1 s1 init (2 * M - i)) else w0[i]?) := by
  induction k with
  | zero =>
    refine ⟨rfl, hx0, hw0, ?_, ?_⟩
    · intro i hi
      have h1 : ¬ (2 * M - 0 < i) := by omega
      simp only [Nat.not_lt_zero, if_false, h1]
      rfl
    · intro i hi
      have h1 : ¬ (2 * M - 0 < i) := by omega
      simp only [Nat.not_lt_zero, if_false, h1]
      rfl
  | succ k ih =>
    obtain ⟨h1, h2, h3, h4, h5⟩ := ih (by omega)
    have hr : gridFold (2 * M + 1) z1 c1 s1 o x0 w0 init (k + 1) = gridStep (2 * M + 1) z1 c1 s1 o (gridFold (2 * M + 1) z1 c1 s1 o x0 w0 init k) k :=
      gridFold_succ _ _ _ _ _ _ _ _ _
    rw [gridStep_eq] at hr
    have e : 2 * M + 1 - 1 - k = 2 * M - k := by omega
    refine ⟨?_, ?_, ?_, ?_, ?_⟩
    · rw [hr]; simp only []
      rw [h1, trip, trip, Function.iterate_succ_apply']
    · rw [hr]; simp only [size_setBang]; exact h2
    · rw [hr]; simp only [size_setBang]; exact h3
    · intro i hi
      rw [hr]; simp only []
      rw [getElemOpt_setBang, getElemOpt_setBang, size_setBang, h2, h4 i hi, h1, e]
      by_cases hc1 : k = i
      · subst hc1
        have : k < k + 1 := by omega
        simp only [this, if_true, hi]
        rfl
      · by_cases hc2 : 2 * M - k = i
        · subst hc2
          have a1 : ¬ (2 * M - k < k + 1) := by omega
          have a2 : 2 * M - (k + 1) < 2 * M - k := by omega
          have a3 : 2 * M - k < 2 * M + 1 := by omega
          have a4 : 2 * M - (2 * M - k) = k := by omega
          simp only [hc1, if_false, a1, a2, if_true, a3, a4]
          rfl
        · have a1 : (i < k + 1) = (i < k) := by apply propext; omega
          have a2 : (2 * M - (k + 1) < i) = (2 * M - k < i) := by apply propext; omega
          simp only [hc1, hc2, if_false, a1, a2]
    · intro i hi
      rw [hr]; simp only []
      rw [getElemOpt_setBang, getElemOpt_setBang, size_setBang, h3, h5 i hi, h1, e]
      by_cases hc1 : k = i
      · subst hc1
        have : k < k + 1 := by omega
        simp only [this, if_true, hi]
        rfl
      · by_cases hc2 : 2 * M - k = i
        · subst hc2
          have a1 : ¬ (2 * M - k < k + 1) := by omega
          have a2 : 2 * M - (k + 1) < 2 * M - k := by omega
          have a3 : 2 * M - k < 2 * M + 1 := by omega
          have a4 : 2 * M - (2 * M - k) = k := by omega
          simp only [hc1, if_false, a1, a2, if_true, a3, a4]
          rfl
        · have a1 : (i < k + 1) = (i < k) := by apply propext; omega
          have a2 : (2 * M - (k + 1) < i) = (2 * M - k < i) := by apply propext; omega
          simp only [hc1, hc2, if_false, a1, a2]

/-- `initGrid` at ℝ unfolded, given the grid size it chose -/
theorem initGrid_eq (points : ℕ) (t : GCType) (N : ℕ) (hN : gridSize t (gridPower (α := ℝ) t points) = N) :
    initGrid (α := ℝ) points t =
      { t := t, maxN := N, M := (N - 1) / 2,
        x := (gridFold N (π / ((N + 1 : ℕ) : ℝ)) (cos (π / ((N + 1 : ℕ) : ℝ))) (sin (π / ((N + 1 : ℕ) : ℝ)))
                (((2 : ℕ) : ℝ) / (((3 : ℕ) : ℝ) * π))
                ((Array.replicate N (0 : ℝ)).set! ((N - 1) / 2) 0) ((Array.replicate N (0 : ℝ)).set! ((N - 1) / 2) 1)
                (π / ((N + 1 : ℕ) : ℝ), sin (π / ((N + 1 : ℕ) : ℝ)), cos (π / ((N + 1 : ℕ) : ℝ))) ((N - 1) / 2)).1,
        w := (gridFold N (π / ((N + 1 : ℕ) : ℝ)) (cos (π / ((N + 1 : ℕ) : ℝ))) (sin (π / ((N + 1 : ℕ) : ℝ)))
                (((2 : ℕ) : ℝ) / (((3 : ℕ) : ℝ) * π))
                ((Array.replicate N (0 : ℝ)).set! ((N - 1) / 2) 0) ((Array.replicate N (0 : ℝ)).set! ((N - 1) / 2) 1)
                (π / ((N + 1 : ℕ) : ℝ), sin (π / ((N + 1 : ℕ) : ℝ)), cos (π / ((N + 1 : ℕ) : ℝ))) ((N - 1) / 2)).2.1 } := by
  subst hN
  rfl

/-- `g` is the Pérez-Jordá grid with N points, in the orientation of the code (abscissae increasing with the index:
`x[i] = −x(θ_{i+1})`, θ_j = jπ/(N+1)) -/
structure IsPJGrid (g : Grid ℝ) (N : ℕ) : Prop where
  maxN : g.maxN = N
  M : g.M = (N - 1) / 2
  w : ∀ i, i < N → g.w[i]? = some (sin (theta N (i + 1)) ^ 4)
  x : ∀ i, i < N → g.x[i]? = some (-(xOf (theta N (i + 1))))

theorem xOf_pi_sub (θ : ℝ) : xOf (π - θ) = -(xOf θ) := by
  rw [xOf_eq_nodeX, xOf_eq_nodeX]; exact (node_mirror θ).1

theorem xOf_pi_div_two : xOf (π / 2) = 0 := by
  have h := xOf_pi_sub (π / 2)
  have e : π - π / 2 = π / 2 := by ring
  rw [e] at h
  linarith

theorem theta_mirror (N i j : ℕ) (h : i + j = N + 1) : theta N i = π - theta N j := by
  have hn : (0 : ℝ) < (N : ℝ) + 1 := by positivity
  have hR : (i : ℝ) + (j : ℝ) = (N : ℝ) + 1 := by exact_mod_cast h
  simp only [theta]
  rw [eq_sub_iff_add_eq, ← add_div, div_eq_iff hn.ne']
  linear_combination π * hR

theorem theta_mid (M : ℕ) : theta (2 * M + 1) (M + 1) = π / 2 := by
  simp only [theta]
  push_cast
  have : (0 : ℝ) < (M : ℝ) + 1 := by positivity
  field_simp
  ring

theorem trip_real (z1 : ℝ) (n : ℕ) :
    trip z1 (cos z1) (sin z1) (z1, sin z1, cos z1) n
      = (((n : ℝ) + 1) * z1, sin (((n : ℝ) + 1) * z1), cos (((n : ℝ) + 1) * z1)) :=
  trig_recurrence z1 n

theorem step_angle (N n : ℕ) : ((n : ℝ) + 1) * (π / ((N + 1 : ℕ) : ℝ)) = theta N (n + 1) := by
  simp only [theta]
  push_cast
  ring

theorem Xn_real (N n : ℕ) :
    Xn (π / ((N + 1 : ℕ) : ℝ)) (cos (π / ((N + 1 : ℕ) : ℝ))) (sin (π / ((N + 1 : ℕ) : ℝ)))
      (((2 : ℕ) : ℝ) / (((3 : ℕ) : ℝ) * π))
      (π / ((N + 1 : ℕ) : ℝ), sin (π / ((N + 1 : ℕ) : ℝ)), cos (π / ((N + 1 : ℕ) : ℝ))) n = xOf (theta N (n + 1)) := by
  rw [Xn, trip_real, step_angle, xOf_eq_nodeX]
  norm_num

theorem Wn_real (N n : ℕ) :
    Wn (π / ((N + 1 : ℕ) : ℝ)) (cos (π / ((N + 1 : ℕ) : ℝ))) (sin (π / ((N + 1 : ℕ) : ℝ)))
      (π / ((N + 1 : ℕ) : ℝ), sin (π / ((N + 1 : ℕ) : ℝ)), cos (π / ((N + 1 : ℕ) : ℝ))) n = sin (theta N (n + 1)) ^ 4 := by
  rw [Wn, trip_real, step_angle, nodeW_eq]

/-- **grid specification**: whenever the size chosen by `initGrid` is odd (it always is for p ≥ 1: 2^p − 1, 3·2^p − 1),
the arrays hold `w[i] = sin⁴ θ_{i+1}` and `x[i] = −x(θ_{i+1})`, θ_j = jπ/(N+1), for every i < N (midpoint: x = 0, w = 1) -/
theorem initGrid_spec (points : ℕ) (t : GCType) (N M : ℕ) (hN : gridSize t (gridPower (α := ℝ) t points) = N)
    (hodd : N = 2 * M + 1) : IsPJGrid (initGrid (α := ℝ) points t) N ∧ (initGrid (α := ℝ) points t).t = t := by
  rw [initGrid_eq points t N hN]
  subst hodd
  have hM : (2 * M + 1 - 1) / 2 = M := by omega
  rw [hM]
  have hs0 : ∀ v : ℝ, ((Array.replicate (2 * M + 1) (0 : ℝ)).set! M v).size = 2 * M + 1 := fun v => by
    rw [size_setBang, Array.size_replicate]
  obtain ⟨-, -, -, h4, h5⟩ := gridFold_spec M (π / ((2 * M + 1 + 1 : ℕ) : ℝ)) (cos (π / ((2 * M + 1 + 1 : ℕ) : ℝ)))
    (sin (π / ((2 * M + 1 + 1 : ℕ) : ℝ))) (((2 : ℕ) : ℝ) / (((3 : ℕ) : ℝ) * π))
    ((Array.replicate (2 * M + 1) (0 : ℝ)).set! M 0) ((Array.replicate (2 * M + 1) (0 : ℝ)).set! M 1)
    (π / ((2 * M + 1 + 1 : ℕ) : ℝ), sin (π / ((2 * M + 1 + 1 : ℕ) : ℝ)), cos (π / ((2 * M + 1 + 1 : ℕ) : ℝ)))
    (hs0 0) (hs0 1) M (le_refl _)
  refine ⟨⟨rfl, hM.symm, ?_, ?_⟩, rfl⟩
  · intro i hi
    simp only []
    rw [h5 i hi, Wn_real, Wn_real]
    by_cases c1 : i < M
    · simp only [c1, if_true]
    · by_cases c2 : 2 * M - M < i
      · have e : 2 * M - i + 1 + (i + 1) = 2 * M + 1 + 1 := by omega
        simp only [c1, c2, if_false, if_true]
        rw [theta_mirror _ _ _ e, sin_pi_sub]
      · have e : i = M := by omega
        subst e
        simp only [c1, c2, if_false]
        rw [getElemOpt_setBang, Array.size_replicate, theta_mid, sin_pi_div_two]
        simp
        omega
  · intro i hi
    simp only []
    rw [h4 i hi, Xn_real, Xn_real]
    by_cases c1 : i < M
    · simp only [c1, if_true]
    · by_cases c2 : 2 * M - M < i
      · have e : 2 * M - i + 1 + (i + 1) = 2 * M + 1 + 1 := by omega
        simp only [c1, c2, if_false, if_true]
        rw [theta_mirror _ _ _ e, xOf_pi_sub]
      · have e : i = M := by omega
        subst e
        simp only [c1, c2, if_false]
        rw [getElemOpt_setBang, Array.size_replicate, theta_mid, xOf_pi_div_two]
        simp
        omega

/-! ### Stage 2: `sumTerms` and the one-point loop -/

theorem foldl_range_sum (q : ℕ → ℕ × ℕ) (c : ℕ × ℕ → ℝ) (L : ℕ) :
    ((List.range L).map q).foldl (fun v p => v + c p) 0 = ∑ j ∈ Finset.range L, c (q j) := by
  induction L with
  | zero => simp
  | succ L ih =>
    rw [List.range_succ, List.map_append, List.foldl_append, ih, Finset.sum_range_succ]
    simp

/-- **what `sumTerms` computes, exactly** (any window): the first member of each pair is clipped from below only, the mirrored
member from above only -/
theorem sumTerms_eq (g : Grid ℝ) (f : ℕ → ℝ) (limit start stop shift skip : ℕ) :
    sumTerms g f limit start stop shift skip
      = ∑ j ∈ Finset.range (limit / 2 + 1),
          ((if start ≤ (skip * (2 * j) + 1) * shift - 1 then
              g.w[(skip * (2 * j) + 1) * shift - 1]! * f ((skip * (2 * j) + 1) * shift - 1) else 0)
           + (if g.maxN - ((skip * (2 * j) + 1) * shift - 1) - 1 ≤ stop then
              g.w[g.maxN - ((skip * (2 * j) + 1) * shift - 1) - 1]! * f (g.maxN - ((skip * (2 * j) + 1) * shift - 1) - 1) else 0)) := by
  unfold sumTerms sumIndices
  rw [← foldl_range_sum (fun j => ((skip * (2 * j) + 1) * shift - 1, g.maxN - ((skip * (2 * j) + 1) * shift - 1) - 1))
    (fun p => (if start ≤ p.1 then g.w[p.1]! * f p.1 else 0) + (if p.2 ≤ stop then g.w[p.2]! * f p.2 else 0))]
  congr 1
  funext v p
  show (if p.2 ≤ stop then (if p.1 ≥ start then v + g.w[p.1]! * f p.1 else v) + g.w[p.2]! * f p.2
        else (if p.1 ≥ start then v + g.w[p.1]! * f p.1 else v)) = _
  split_ifs <;> ring

theorem term_stride (Φ : ℝ → ℝ) (N' s j : ℕ) (hN : 0 < N') (hs : 0 < s) :
    term Φ (N' * s - 1) (j * s) = term Φ (N' - 1) j := by
  simp only [term, theta_stride N' s j hN hs]

/-- unclipped `sumTerms` on a grid with N + 1 = 2·skip·K·s points, K pairs, stride s: the nodes ≡ ±1 (mod 2·skip) of the
(2·skip·K − 1)-point rule -/
theorem sumTerms_full (g : Grid ℝ) (f : ℕ → ℝ) (Φ : ℝ → ℝ) (N K s skip : ℕ) (hskip : 1 ≤ skip) (hs : 1 ≤ s)
    (hN : g.maxN = N) (hNs : N + 1 = 2 * skip * K * s)
    (hterm : ∀ i, i < N → g.w[i]! * f i = term Φ N (i + 1)) :
    sumTerms g f (2 * K - 1) 0 (N - 1) s skip
      = ∑ j ∈ Finset.range K, (term Φ (2 * skip * K - 1) (2 * skip * j + 1)
          + term Φ (2 * skip * K - 1) (2 * skip * (K - 1 - j) + (2 * skip - 1))) := by
  rcases Nat.eq_zero_or_pos K with rfl | hK
  · simp at hNs
  rw [sumTerms_eq, hN]
  have hL : (2 * K - 1) / 2 + 1 = K := by omega
  rw [hL]
  apply Finset.sum_congr rfl
  intro j hj
  rw [Finset.mem_range] at hj
  have e0 : skip * (2 * j) = 2 * skip * j := by ring
  rw [e0]
  -- A = 2·skip·j + 1, B = its mirror
  obtain ⟨d, hd⟩ : ∃ d, K = j + 1 + d := ⟨K - 1 - j, by omega⟩
  have hd' : K - 1 - j = d := by omega
  rw [hd']
  have hAB : (2 * skip * j + 1) * s + (2 * skip * d + (2 * skip - 1)) * s = N + 1 := by
    rw [hNs, hd, ← Nat.add_mul]
    congr 1
    have : 2 * skip * (j + 1 + d) = 2 * skip * j + 2 * skip * d + 2 * skip := by ring
    rw [this]; omega
  have hA1 : 1 ≤ (2 * skip * j + 1) * s := Nat.mul_pos (by omega) hs
  have hB1 : 1 ≤ (2 * skip * d + (2 * skip - 1)) * s := Nat.mul_pos (by omega) hs
  have hmir : N - ((2 * skip * j + 1) * s - 1) - 1 = (2 * skip * d + (2 * skip - 1)) * s - 1 := by omega
  rw [hmir]
  have c1 : 0 ≤ (2 * skip * j + 1) * s - 1 := Nat.zero_le _
  have c2 : (2 * skip * d + (2 * skip - 1)) * s - 1 ≤ N - 1 := by omega
  rw [if_pos c1, if_pos c2, hterm _ (by omega), hterm _ (by omega)]
  have hN' : N = 2 * skip * K * s - 1 := by omega
  have hK' : 0 < 2 * skip * K := by positivity
  have e1 : (2 * skip * j + 1) * s - 1 + 1 = (2 * skip * j + 1) * s := by omega
  have e2 : (2 * skip * d + (2 * skip - 1)) * s - 1 + 1 = (2 * skip * d + (2 * skip - 1)) * s := by omega
  rw [e1, e2, hN', term_stride _ _ _ _ hK' hs, term_stride _ _ _ _ hK' hs]


theorem sum_odd_split (a : ℕ → ℝ) (K : ℕ) :
    ∑ i ∈ Finset.range (2 * K), a (2 * i + 1)
      = ∑ j ∈ Finset.range K, a (4 * j + 1) + ∑ j ∈ Finset.range K, a (4 * j + 3) := by
  induction K with
  | zero => simp
  | succ K ih =>
    have e : 2 * (K + 1) = 2 * K + 1 + 1 := by ring
    rw [e, Finset.sum_range_succ, Finset.sum_range_succ, ih, Finset.sum_range_succ, Finset.sum_range_succ]
    have e1 : 2 * (2 * K) + 1 = 4 * K + 1 := by ring
    have e2 : 2 * (2 * K + 1) + 1 = 4 * K + 3 := by ring
    rw [e1, e2]
    ring

/-- **one-point update** `T2n1 = Tn + sumTerms(f, n, 0, N−1, p, 2)` on a grid with N + 1 = 4·K·s: from T_{2K−1} to T_{4K−1} -/
theorem onePoint_step (g : Grid ℝ) (f : ℕ → ℝ) (Φ : ℝ → ℝ) (N K s : ℕ) (hK : 1 ≤ K) (hs : 1 ≤ s)
    (hN : g.maxN = N) (hNs : N + 1 = 4 * K * s)
    (hterm : ∀ i, i < N → g.w[i]! * f i = term Φ N (i + 1)) :
    T Φ (2 * K - 1) + sumTerms g f (2 * K - 1) 0 (N - 1) s 2 = T Φ (4 * K - 1) := by
  rw [sumTerms_full g f Φ N K s 2 (by norm_num) hs hN (by rw [hNs]) hterm]
  obtain ⟨K', rfl⟩ : ∃ K', K = K' + 1 := ⟨K - 1, by omega⟩
  have e1 : 2 * (K' + 1) - 1 = 2 * K' + 1 := by omega
  have e2 : 4 * (K' + 1) - 1 = 2 * (2 * K' + 1) + 1 := by omega
  have e3 : 2 * 2 * (K' + 1) - 1 = 2 * (2 * K' + 1) + 1 := by omega
  rw [e1, e2, T_onePoint_step Φ (2 * K' + 1)]
  congr 1
  have e4 : 2 * K' + 1 + 1 = 2 * (K' + 1) := by ring
  have h1 : ∀ j, 2 * 2 * j + 1 = 4 * j + 1 := fun j => by ring
  have h2 : ∀ j, 2 * 2 * (K' + 1 - 1 - j) + (2 * 2 - 1) = 4 * (K' + 1 - 1 - j) + 3 := fun j => by omega
  simp only [h1, h2]
  rw [e4, sum_odd_split, Finset.sum_add_distrib,
    Finset.sum_range_reflect (fun j => term Φ (2 * (2 * K' + 1) + 1) (4 * j + 3)) (K' + 1)]

/-- **two-point update** `T2m1 = Tm + Tn − Tn12 + sumTerms(f, (2m−1)/3, 0, N−1, M2, 3)` on a grid with N + 1 = 6·(K+1)·s -/
theorem twoPoint_step (g : Grid ℝ) (f : ℕ → ℝ) (Φ : ℝ → ℝ) (N K s : ℕ) (hs : 1 ≤ s)
    (hN : g.maxN = N) (hNs : N + 1 = 6 * (K + 1) * s)
    (hterm : ∀ i, i < N → g.w[i]! * f i = term Φ N (i + 1)) :
    T Φ (3 * K + 2) + T Φ (2 * K + 1) - T Φ K + sumTerms g f (2 * (K + 1) - 1) 0 (N - 1) s 3 = T Φ (6 * K + 5) := by
  rw [sumTerms_full g f Φ N (K + 1) s 3 (by norm_num) hs hN (by rw [hNs]) hterm]
  have e3 : 2 * 3 * (K + 1) - 1 = 6 * K + 5 := by omega
  rw [e3, T_twoPoint_step]
  congr 1
  have h1 : ∀ j, 2 * 3 * j + 1 = 6 * j + 1 := fun j => by ring
  have h2 : ∀ j, 2 * 3 * (K + 1 - 1 - j) + (2 * 3 - 1) = 6 * (K + 1 - 1 - j) + 5 := fun j => by omega
  simp only [h1, h2]
  rw [Finset.sum_add_distrib, Finset.sum_add_distrib,
    Finset.sum_range_reflect (fun j => term Φ (6 * K + 5) (6 * j + 5)) (K + 1)]


theorem onePointLoop_conv (g : Grid ℝ) (f : ℕ → ℝ) (tol : ℝ) (a b fuel : ℕ) (s : OneSt ℝ) (h : s.conv = true) :
    onePointLoop g f tol a b fuel s = s := by
  cases fuel with
  | zero => rfl
  | succ fuel => rw [onePointLoop]; simp [h]

theorem onePointLoop_stop (g : Grid ℝ) (f : ℕ → ℝ) (tol : ℝ) (a b fuel : ℕ) (s : OneSt ℝ) (h : ¬ s.n < g.maxN) :
    onePointLoop g f tol a b fuel s = s := by
  cases fuel with
  | zero => rfl
  | succ fuel => rw [onePointLoop]; simp [h]

/-- one iteration of the one-point loop: either it accepts or it moves to the next level -/
theorem onePointLoop_succ (g : Grid ℝ) (f : ℕ → ℝ) (tol : ℝ) (a b fuel : ℕ) (s : OneSt ℝ)
    (h1 : s.n < g.maxN) (h2 : s.conv = false) :
    onePointLoop g f tol a b (fuel + 1) s
        = { s with T2n1 := s.Tn + sumTerms g f s.n a b s.p 2, n := 2 * s.n + 1, conv := true } ∨
    onePointLoop g f tol a b (fuel + 1) s
        = onePointLoop g f tol a b fuel
            { Tn := s.Tn + sumTerms g f s.n a b s.p 2, Tn12 := 4 * s.Tn, T2n1 := s.Tn + sumTerms g f s.n a b s.p 2,
              n := 2 * s.n + 1, p := s.p / 2, conv := false } := by
  rw [onePointLoop]
  simp only [h1, h2, decide_true, Bool.not_false, Bool.and_self, if_true]
  split
  · left
    rw [onePointLoop_conv _ _ _ _ _ _ _ rfl]
  · right
    norm_num

/-- invariant of the one-point loop on the full range of a grid with 2^P − 1 points whose products `w[i]·f(i)` are the
terms of the rule for Φ: entering level k (n = 2^(k+1) − 1, Tn = T_n, stride 2^(P−2−k)) the loop ends at some level
j ≥ max k 1 with `T2n1 = T_n` for the final n = 2^(j+1) − 1, and if it did not accept, n is the whole grid -/
theorem onePointLoop_spec (g : Grid ℝ) (f : ℕ → ℝ) (Φ : ℝ → ℝ) (tol : ℝ) (P : ℕ) (hN : g.maxN = 2 ^ P - 1)
    (hterm : ∀ i, i < 2 ^ P - 1 → g.w[i]! * f i = term Φ (2 ^ P - 1) (i + 1)) :
    ∀ (fuel k : ℕ) (s : OneSt ℝ), k + 1 ≤ P → (k = 0 → 2 ≤ P) → P ≤ fuel + k + 1 →
      s.n = 2 ^ (k + 1) - 1 → s.Tn = T Φ s.n → (1 ≤ k → s.T2n1 = T Φ s.n) → s.conv = false →
      (k + 2 ≤ P → s.p = 2 ^ (P - 2 - k)) →
      ∃ j, 1 ≤ j ∧ k ≤ j ∧ j + 1 ≤ P ∧
        (onePointLoop g f tol 0 (2 ^ P - 1 - 1) fuel s).n = 2 ^ (j + 1) - 1 ∧
        (onePointLoop g f tol 0 (2 ^ P - 1 - 1) fuel s).T2n1 = T Φ (2 ^ (j + 1) - 1) ∧
        ((onePointLoop g f tol 0 (2 ^ P - 1 - 1) fuel s).conv = false → j + 1 = P) := by
  intro fuel
  induction fuel with
  | zero =>
    intro k s hk h0 hf hn hTn hT2 hc hp
    have hk1 : 1 ≤ k := by omega
    refine ⟨k, hk1, le_refl _, hk, hn, ?_, fun _ => by omega⟩
    show s.T2n1 = _
    rw [hT2 hk1, hn]
  | succ fuel ih =>
    intro k s hk h0 hf hn hTn hT2 hc hp
    by_cases hlt : k + 2 ≤ P
    · have h2P : 2 ^ P = 4 * 2 ^ k * 2 ^ (P - 2 - k) := two_pow_split_one P k hlt
      have hpos : 1 ≤ 2 ^ (P - 2 - k) := Nat.two_pow_pos _
      have hkpos : 1 ≤ 2 ^ k := Nat.two_pow_pos _
      have hn' : s.n = 2 * 2 ^ k - 1 := by rw [hn, pow_succ]; omega
      have hlt' : s.n < g.maxN := by
        rw [hN, hn', h2P]
        have : 2 * 2 ^ k * 1 ≤ 2 * 2 ^ k * 2 ^ (P - 2 - k) := Nat.mul_le_mul_left _ hpos
        have e : 4 * 2 ^ k * 2 ^ (P - 2 - k) = 2 * (2 * 2 ^ k * 2 ^ (P - 2 - k)) := by ring
        omega
      have hstep : s.Tn + sumTerms g f s.n 0 (2 ^ P - 1 - 1) s.p 2 = T Φ (4 * 2 ^ k - 1) := by
        rw [hTn, hp hlt, hn']
        exact onePoint_step g f Φ (2 ^ P - 1) (2 ^ k) (2 ^ (P - 2 - k)) hkpos hpos hN
          (by have := Nat.two_pow_pos P; omega) hterm
      have hnew : 2 * s.n + 1 = 2 ^ (k + 1 + 1) - 1 := by rw [hn', pow_succ, pow_succ]; omega
      have h4 : 4 * 2 ^ k - 1 = 2 ^ (k + 1 + 1) - 1 := by rw [pow_succ, pow_succ]; omega
      rcases onePointLoop_succ g f tol 0 (2 ^ P - 1 - 1) fuel s hlt' hc with h | h
      · rw [h]
        refine ⟨k + 1, by omega, by omega, by omega, hnew, ?_, fun hcf => by simp at hcf⟩
        show s.Tn + sumTerms g f s.n 0 (2 ^ P - 1 - 1) s.p 2 = _
        rw [hstep, h4]
      · rw [h]
        have hTn' : s.Tn + sumTerms g f s.n 0 (2 ^ P - 1 - 1) s.p 2 = T Φ (2 * s.n + 1) := by rw [hstep, hnew, h4]
        obtain ⟨j, hj1, hj2, hj3, hj4⟩ := ih (k + 1)
          { Tn := s.Tn + sumTerms g f s.n 0 (2 ^ P - 1 - 1) s.p 2, Tn12 := 4 * s.Tn,
            T2n1 := s.Tn + sumTerms g f s.n 0 (2 ^ P - 1 - 1) s.p 2,
            n := 2 * s.n + 1, p := s.p / 2, conv := false }
          (by omega) (by omega) (by omega) hnew hTn' (fun _ => hTn') rfl
          (fun h3 => by
            show s.p / 2 = _
            rw [hp hlt]
            have : P - 2 - k = (P - 2 - (k + 1)) + 1 := by omega
            rw [this, pow_succ]; omega)
        exact ⟨j, hj1, by omega, hj3, hj4⟩
    · have hk1 : 1 ≤ k := by omega
      have hkP : k + 1 = P := by omega
      have hstop : ¬ s.n < g.maxN := by rw [hN, hn, hkP]; omega
      rw [onePointLoop_stop _ _ _ _ _ _ _ hstop]
      refine ⟨k, hk1, le_refl _, hk, hn, ?_, fun _ => hkP⟩
      rw [hT2 hk1, hn]


theorem T_one (Φ : ℝ → ℝ) : T Φ 1 = term Φ 1 1 := by simp [T]

theorem T_two (Φ : ℝ → ℝ) : T Φ 2 = term Φ 2 1 + term Φ 2 2 := by simp [T, Finset.sum_range_succ]

/-- initial state of the one-point loop -/
noncomputable def oneInit (g : Grid ℝ) (f : ℕ → ℝ) : OneSt ℝ :=
  { Tn := g.w[g.M]! * f g.M, Tn12 := ((2 : ℕ) : ℝ) * (g.w[g.M]! * f g.M), T2n1 := 0, n := 1, p := (g.M + 1) / 2, conv := false }

theorem integrate_onePoint_eq (g : Grid ℝ) (f : ℕ → ℝ) (tol : ℝ) (a b : ℕ) (ht : g.t = .onePoint) :
    integrate g f tol a b =
      (((16 : ℕ) : ℝ) * (onePointLoop g f tol a b (g.maxN + 2) (oneInit g f)).T2n1
          / (((3 : ℕ) : ℝ) * (((onePointLoop g f tol a b (g.maxN + 2) (oneInit g f)).n : ℝ) + 1)),
       (onePointLoop g f tol a b (g.maxN + 2) (oneInit g f)).conv) := by
  unfold integrate
  rw [ht]
  rfl

/-- **one-point scheme, full range**: on a grid with 2^P − 1 points (P ≥ 2) whose products `w[i]·f(i)` are the terms of the
N-point rule for Φ, `integrate` returns `rule Φ n` for the level n = 2^(j+1) − 1 ∈ {3, 7, …, N} at which it stops; if it reports
non-convergence then n = N, the finest rule -/
theorem integrate_onePoint_rule (g : Grid ℝ) (f : ℕ → ℝ) (Φ : ℝ → ℝ) (tol : ℝ) (P : ℕ) (hP : 2 ≤ P)
    (ht : g.t = .onePoint) (hN : g.maxN = 2 ^ P - 1) (hM : g.M = (2 ^ P - 1 - 1) / 2)
    (hterm : ∀ i, i < 2 ^ P - 1 → g.w[i]! * f i = term Φ (2 ^ P - 1) (i + 1)) :
    ∃ j, 1 ≤ j ∧ j + 1 ≤ P ∧ (integrate g f tol 0 (2 ^ P - 1 - 1)).1 = rule Φ (2 ^ (j + 1) - 1) ∧
      ((integrate g f tol 0 (2 ^ P - 1 - 1)).2 = false → j + 1 = P) := by
  obtain ⟨Q, rfl⟩ : ∃ Q, P = Q + 2 := ⟨P - 2, by omega⟩
  have hQ : 1 ≤ 2 ^ Q := Nat.two_pow_pos _
  have h2 : 2 ^ (Q + 2) = 4 * 2 ^ Q := by rw [pow_succ, pow_succ]; ring
  have hM' : g.M = 2 * 2 ^ Q - 1 := by rw [hM, h2]; omega
  have hmid : g.w[g.M]! * f g.M = T Φ 1 := by
    rw [hterm _ (by rw [hM', h2]; omega), T_one, hM']
    have e1 : 2 * 2 ^ Q - 1 + 1 = 1 * (2 * 2 ^ Q) := by omega
    have e2 : 2 ^ (Q + 2) - 1 = 2 * (2 * 2 ^ Q) - 1 := by rw [h2]; omega
    rw [e1, e2, term_stride Φ 2 (2 * 2 ^ Q) 1 (by norm_num) (by omega)]
  obtain ⟨j, hj1, -, hj3, hj4, hj5, hj6⟩ := onePointLoop_spec g f Φ tol (Q + 2) hN hterm (g.maxN + 2) 0
    (oneInit g f)
    (by omega) (fun _ => hP) (by rw [hN]; have := (Nat.lt_two_pow_self (n := Q + 2)); omega) rfl hmid
    (fun h => by omega) rfl
    (fun _ => by
      show (g.M + 1) / 2 = _
      rw [hM']
      have : Q + 2 - 2 - 0 = Q := by omega
      rw [this]; omega)
  refine ⟨j, hj1, hj3, ?_, ?_⟩
  · rw [integrate_onePoint_eq g f tol _ _ ht]
    simp only []
    rw [hj4, hj5, rule]
    norm_num
  · rw [integrate_onePoint_eq g f tol _ _ ht]
    exact hj6


/-! ### Stage 3: the two-point loop -/

theorem twoPointLoop_conv (g : Grid ℝ) (f : ℕ → ℝ) (tol : ℝ) (a b fuel : ℕ) (s : TwoSt ℝ) (h : s.conv = true) :
    twoPointLoop g f tol a b fuel s = s := by
  cases fuel with
  | zero => rfl
  | succ fuel => rw [twoPointLoop]; simp [h]

theorem twoPointLoop_stop (g : Grid ℝ) (f : ℕ → ℝ) (tol : ℝ) (a b fuel : ℕ) (s : TwoSt ℝ) (h : ¬ s.m < g.maxN) :
    twoPointLoop g f tol a b fuel s = s := by
  cases fuel with
  | zero => rfl
  | succ fuel => rw [twoPointLoop]; simp [h]

/-- one iteration of the two-point loop: it accepts (after one or after two tests) or moves to the next level -/
theorem twoPointLoop_succ (g : Grid ℝ) (f : ℕ → ℝ) (tol : ℝ) (a b fuel : ℕ) (s : TwoSt ℝ)
    (h1 : s.m < g.maxN) (h2 : s.conv = false) :
    twoPointLoop g f tol a b (fuel + 1) s
        = { s with T2m1 := s.Tm + s.Tn - s.Tn12 + sumTerms g f ((2 * s.m - 1) / 3) a b s.M2 3,
                   m := 2 * s.m + 1, n := 2 * s.n + 1, conv := true } ∨
    twoPointLoop g f tol a b (fuel + 1) s
        = { s with T2m1 := s.Tm + s.Tn - s.Tn12 + sumTerms g f ((2 * s.m - 1) / 3) a b s.M2 3,
                   m := 2 * s.m + 1, conv := true } ∨
    twoPointLoop g f tol a b (fuel + 1) s
        = twoPointLoop g f tol a b fuel
            { Tn12 := s.Tn, Tn := s.Tn + sumTerms g f s.n a b s.p 2,
              Tm := s.Tm + s.Tn - s.Tn12 + sumTerms g f ((2 * s.m - 1) / 3) a b s.M2 3,
              T2m1 := s.Tm + s.Tn - s.Tn12 + sumTerms g f ((2 * s.m - 1) / 3) a b s.M2 3,
              p := s.p / 2, M2 := s.M2 / 2, n := 2 * s.n + 1, m := 2 * s.m + 1, conv := false } := by
  rw [twoPointLoop]
  simp only [h1, h2, decide_true, Bool.not_false, Bool.and_self, if_true]
  split
  · split
    · left
      rw [twoPointLoop_conv _ _ _ _ _ _ _ rfl]
    · right; right
      rfl
  · right; left
    rw [twoPointLoop_conv _ _ _ _ _ _ _ rfl]


/-- invariant of the two-point loop on the full range of a grid with 3·2^P − 1 points: entering level k (m = 3·2^k − 1,
n = 2^(k+1) − 1, Tm = T_m, Tn = T_n, Tn12 = T_{(n−1)/2}) it ends at some level j ≥ max k 1 with `T2m1 = T_m` for the
final m = 3·2^j − 1; if it did not accept, m is the whole grid.  (The one-point companion value T2n1 computed at the LAST
level, where the stride p has become ⌊3/2⌋ = 1, is not a rule value; it only enters the acceptance test.) -/
theorem twoPointLoop_spec (g : Grid ℝ) (f : ℕ → ℝ) (Φ : ℝ → ℝ) (tol : ℝ) (P : ℕ) (hN : g.maxN = 3 * 2 ^ P - 1)
    (hterm : ∀ i, i < 3 * 2 ^ P - 1 → g.w[i]! * f i = term Φ (3 * 2 ^ P - 1) (i + 1)) :
    ∀ (fuel k : ℕ) (s : TwoSt ℝ), k ≤ P → (k = 0 → 1 ≤ P) → P ≤ fuel + k →
      s.m = 3 * 2 ^ k - 1 → s.conv = false → (1 ≤ k → s.T2m1 = T Φ (3 * 2 ^ k - 1)) →
      (k + 1 ≤ P → s.n = 2 ^ (k + 1) - 1 ∧ s.Tn = T Φ (2 ^ (k + 1) - 1) ∧ s.Tn12 = T Φ (2 ^ k - 1) ∧
        s.Tm = T Φ (3 * 2 ^ k - 1) ∧ s.M2 = 2 ^ (P - 1 - k)) →
      (k + 2 ≤ P → s.p = 3 * 2 ^ (P - 2 - k)) →
      ∃ j, 1 ≤ j ∧ k ≤ j ∧ j ≤ P ∧
        (twoPointLoop g f tol 0 (3 * 2 ^ P - 1 - 1) fuel s).m = 3 * 2 ^ j - 1 ∧
        (twoPointLoop g f tol 0 (3 * 2 ^ P - 1 - 1) fuel s).T2m1 = T Φ (3 * 2 ^ j - 1) ∧
        ((twoPointLoop g f tol 0 (3 * 2 ^ P - 1 - 1) fuel s).conv = false → j = P) := by
  intro fuel
  induction fuel with
  | zero =>
    intro k s hk h0 hf hm hc hT2 hlev hp
    have hk1 : 1 ≤ k := by omega
    exact ⟨k, hk1, le_refl _, hk, hm, hT2 hk1, fun _ => by omega⟩
  | succ fuel ih =>
    intro k s hk h0 hf hm hc hT2 hlev hp
    by_cases hlt : k + 1 ≤ P
    · obtain ⟨hn, hTn, hTn12, hTm, hM2⟩ := hlev hlt
      have h2P : 3 * 2 ^ P = 6 * 2 ^ k * 2 ^ (P - 1 - k) := two_pow_split_two P k hlt
      have hpos : 1 ≤ 2 ^ (P - 1 - k) := Nat.two_pow_pos _
      have hkpos : 1 ≤ 2 ^ k := Nat.two_pow_pos _
      have hlt' : s.m < g.maxN := by
        rw [hN, hm, h2P]
        have : 3 * 2 ^ k * 1 ≤ 3 * 2 ^ k * 2 ^ (P - 1 - k) := Nat.mul_le_mul_left _ hpos
        have e : 6 * 2 ^ k * 2 ^ (P - 1 - k) = 2 * (3 * 2 ^ k * 2 ^ (P - 1 - k)) := by ring
        omega
      obtain ⟨K, hK⟩ : ∃ K, 2 ^ k = K + 1 := ⟨2 ^ k - 1, by omega⟩
      have hstep : s.Tm + s.Tn - s.Tn12 + sumTerms g f ((2 * s.m - 1) / 3) 0 (3 * 2 ^ P - 1 - 1) s.M2 3
          = T Φ (3 * 2 ^ (k + 1) - 1) := by
        have hlim : (2 * s.m - 1) / 3 = 2 * (K + 1) - 1 := by rw [hm, hK]; omega
        have := twoPoint_step g f Φ (3 * 2 ^ P - 1) K (2 ^ (P - 1 - k)) hpos hN
          (by rw [← hK]; have := Nat.two_pow_pos P; omega) hterm
        rw [hTm, hTn, hTn12, hM2, hlim, pow_succ, hK]
        have e1 : 3 * (K + 1) - 1 = 3 * K + 2 := by omega
        have e2 : (K + 1) * 2 - 1 = 2 * K + 1 := by omega
        have e3 : K + 1 - 1 = K := by omega
        have e4 : 3 * ((K + 1) * 2) - 1 = 6 * K + 5 := by omega
        rw [e1, e2, e3, e4]
        exact this
      have hnew : 2 * s.m + 1 = 3 * 2 ^ (k + 1) - 1 := by rw [hm, pow_succ]; omega
      rcases twoPointLoop_succ g f tol 0 (3 * 2 ^ P - 1 - 1) fuel s hlt' hc with h | h | h
      · rw [h]
        exact ⟨k + 1, by omega, by omega, by omega, hnew, hstep, fun hcf => by simp at hcf⟩
      · rw [h]
        exact ⟨k + 1, by omega, by omega, by omega, hnew, hstep, fun hcf => by simp at hcf⟩
      · rw [h]
        obtain ⟨j, hj1, hj2, hj3, hj4⟩ := ih (k + 1)
          { Tn12 := s.Tn, Tn := s.Tn + sumTerms g f s.n 0 (3 * 2 ^ P - 1 - 1) s.p 2,
            Tm := s.Tm + s.Tn - s.Tn12 + sumTerms g f ((2 * s.m - 1) / 3) 0 (3 * 2 ^ P - 1 - 1) s.M2 3,
            T2m1 := s.Tm + s.Tn - s.Tn12 + sumTerms g f ((2 * s.m - 1) / 3) 0 (3 * 2 ^ P - 1 - 1) s.M2 3,
            p := s.p / 2, M2 := s.M2 / 2, n := 2 * s.n + 1, m := 2 * s.m + 1, conv := false }
          (by omega) (by omega) (by omega) hnew rfl (fun _ => hstep)
          (fun h3 => by
            have hk2 : k + 2 ≤ P := by omega
            have hs1 : 1 ≤ 3 * 2 ^ (P - 2 - k) := by have := Nat.two_pow_pos (P - 2 - k); omega
            refine ⟨?_, ?_, hTn, hstep, ?_⟩
            · show 2 * s.n + 1 = _
              rw [hn, pow_succ 2 (k + 1)]
              have := Nat.two_pow_pos (k + 1); omega
            · show s.Tn + sumTerms g f s.n 0 (3 * 2 ^ P - 1 - 1) s.p 2 = _
              have := onePoint_step g f Φ (3 * 2 ^ P - 1) (2 ^ k) (3 * 2 ^ (P - 2 - k)) hkpos hs1 hN
                (by
                  have e : P = 2 + k + (P - 2 - k) := by omega
                  have : 3 * 2 ^ P = 4 * 2 ^ k * (3 * 2 ^ (P - 2 - k)) := by
                    conv_lhs => rw [e]
                    rw [pow_add, pow_add]; ring
                  have := Nat.two_pow_pos P; omega) hterm
              have e1 : 2 ^ (k + 1) - 1 = 2 * 2 ^ k - 1 := by rw [pow_succ]; omega
              have e2 : 2 ^ (k + 1 + 1) - 1 = 4 * 2 ^ k - 1 := by rw [pow_succ, pow_succ]; omega
              rw [hTn, hn, hp hk2, e1, e2]
              exact this
            · show s.M2 / 2 = _
              rw [hM2]
              have : P - 1 - k = (P - 1 - (k + 1)) + 1 := by omega
              rw [this, pow_succ]; omega)
          (fun h3 => by
            show s.p / 2 = _
            rw [hp (by omega)]
            have : P - 2 - k = (P - 2 - (k + 1)) + 1 := by omega
            rw [this, pow_succ]; omega)
        exact ⟨j, hj1, by omega, hj3, hj4⟩
    · have hk1 : 1 ≤ k := by omega
      have hkP : k = P := by omega
      have hstop : ¬ s.m < g.maxN := by rw [hN, hm, hkP]; omega
      rw [twoPointLoop_stop _ _ _ _ _ _ _ hstop]
      exact ⟨k, hk1, le_refl _, hk, hm, hT2 hk1, fun _ => hkP⟩


/-- initial state of the two-point loop -/
noncomputable def twoInit (g : Grid ℝ) (f : ℕ → ℝ) : TwoSt ℝ :=
  { Tn12 := 0, Tn := g.w[g.M]! * f g.M,
    Tm := g.w[(g.maxN - 2) / 3]! * f ((g.maxN - 2) / 3)
            + g.w[g.maxN - (g.maxN - 2) / 3 - 1]! * f (g.maxN - (g.maxN - 2) / 3 - 1),
    T2m1 := 0, p := (g.M + 1) / 2, M2 := ((g.maxN - 2) / 3 + 1) / 2, n := 1, m := 2, conv := false }

theorem integrate_twoPoint_eq (g : Grid ℝ) (f : ℕ → ℝ) (tol : ℝ) (a b : ℕ) (ht : g.t = .twoPoint) :
    integrate g f tol a b =
      (((16 : ℕ) : ℝ) * (twoPointLoop g f tol a b (g.maxN + 2) (twoInit g f)).T2m1
          / (((3 : ℕ) : ℝ) * (((twoPointLoop g f tol a b (g.maxN + 2) (twoInit g f)).m : ℝ) + 1)),
       (twoPointLoop g f tol a b (g.maxN + 2) (twoInit g f)).conv) := by
  unfold integrate
  rw [ht]
  rfl

theorem T_zero (Φ : ℝ → ℝ) : T Φ 0 = 0 := by simp [T]

/-- **two-point scheme, full range**: on a grid with 3·2^P − 1 points (P ≥ 1) whose products `w[i]·f(i)` are the terms of the
N-point rule for Φ, `integrate` returns `rule Φ m` for the level m = 3·2^j − 1 ∈ {5, 11, …, N} at which it stops; if it reports
non-convergence then m = N -/
theorem integrate_twoPoint_rule (g : Grid ℝ) (f : ℕ → ℝ) (Φ : ℝ → ℝ) (tol : ℝ) (P : ℕ) (hP : 1 ≤ P)
    (ht : g.t = .twoPoint) (hN : g.maxN = 3 * 2 ^ P - 1) (hM : g.M = (3 * 2 ^ P - 1 - 1) / 2)
    (hterm : ∀ i, i < 3 * 2 ^ P - 1 → g.w[i]! * f i = term Φ (3 * 2 ^ P - 1) (i + 1)) :
    ∃ j, 1 ≤ j ∧ j ≤ P ∧ (integrate g f tol 0 (3 * 2 ^ P - 1 - 1)).1 = rule Φ (3 * 2 ^ j - 1) ∧
      ((integrate g f tol 0 (3 * 2 ^ P - 1 - 1)).2 = false → j = P) := by
  obtain ⟨Q, rfl⟩ : ∃ Q, P = Q + 1 := ⟨P - 1, by omega⟩
  have hQ : 1 ≤ 2 ^ Q := Nat.two_pow_pos _
  have h2 : 2 ^ (Q + 1) = 2 * 2 ^ Q := by rw [pow_succ]; ring
  have hM' : g.M = 3 * 2 ^ Q - 1 := by rw [hM, h2]; omega
  have hM2a : (g.maxN - 2) / 3 = 2 * 2 ^ Q - 1 := by rw [hN, h2]; omega
  have hmir : g.maxN - (g.maxN - 2) / 3 - 1 = 4 * 2 ^ Q - 1 := by rw [hM2a, hN, h2]; omega
  have hmid : g.w[g.M]! * f g.M = T Φ 1 := by
    rw [hterm _ (by rw [hM', h2]; omega), T_one, hM']
    have e1 : 3 * 2 ^ Q - 1 + 1 = 1 * (3 * 2 ^ Q) := by omega
    have e2 : 3 * 2 ^ (Q + 1) - 1 = 2 * (3 * 2 ^ Q) - 1 := by rw [h2]; omega
    rw [e1, e2, term_stride Φ 2 (3 * 2 ^ Q) 1 (by norm_num) (by omega)]
  have hseed : g.w[(g.maxN - 2) / 3]! * f ((g.maxN - 2) / 3)
      + g.w[g.maxN - (g.maxN - 2) / 3 - 1]! * f (g.maxN - (g.maxN - 2) / 3 - 1) = T Φ 2 := by
    rw [hmir, hM2a, hterm _ (by rw [h2]; omega), hterm _ (by rw [h2]; omega), T_two]
    have e1 : 2 * 2 ^ Q - 1 + 1 = 1 * (2 * 2 ^ Q) := by omega
    have e2 : 4 * 2 ^ Q - 1 + 1 = 2 * (2 * 2 ^ Q) := by omega
    have e3 : 3 * 2 ^ (Q + 1) - 1 = 3 * (2 * 2 ^ Q) - 1 := by rw [h2]
    rw [e1, e2, e3, term_stride Φ 3 (2 * 2 ^ Q) 1 (by norm_num) (by omega),
      term_stride Φ 3 (2 * 2 ^ Q) 2 (by norm_num) (by omega)]
  obtain ⟨j, hj1, -, hj3, hj4, hj5, hj6⟩ := twoPointLoop_spec g f Φ tol (Q + 1) hN hterm (g.maxN + 2) 0
    (twoInit g f) (by omega) (fun _ => hP) (by rw [hN]; have := (Nat.lt_two_pow_self (n := Q + 1)); omega) rfl rfl
    (fun h => by omega)
    (fun _ => by
      refine ⟨rfl, hmid, ?_, hseed, ?_⟩
      · show (0 : ℝ) = _
        rw [pow_zero, Nat.sub_self, T_zero]
      · show ((g.maxN - 2) / 3 + 1) / 2 = _
        rw [hM2a]
        have : Q + 1 - 1 - 0 = Q := by omega
        rw [this]; omega)
    (fun h3 => by
      show (g.M + 1) / 2 = _
      rw [hM']
      obtain ⟨R, rfl⟩ : ∃ R, Q = R + 1 := ⟨Q - 1, by omega⟩
      have : R + 1 + 1 - 2 - 0 = R := by omega
      rw [this, pow_succ]; omega)
  refine ⟨j, hj1, hj3, ?_, ?_⟩
  · rw [integrate_twoPoint_eq g f tol _ _ ht]
    simp only []
    rw [hj4, hj5, rule]
    norm_num
  · rw [integrate_twoPoint_eq g f tol _ _ ht]
    exact hj6


/-! ### the rule of the reflected integrand; the code's value for an integrand F sampled at the grid's abscissae -/

theorem term_neg (F : ℝ → ℝ) (n i j : ℕ) (h : i + j = n + 1) :
    term (fun x => F (-x)) n i = term F n j := by
  simp only [term]
  rw [theta_mirror n i j h, sin_pi_sub, xOf_pi_sub, neg_neg]

/-- the rule is symmetric: the rule for x ↦ F(−x) is the rule for F read backwards -/
theorem T_neg (F : ℝ → ℝ) (n : ℕ) : T (fun x => F (-x)) n = T F n := by
  simp only [T]
  rw [← Finset.sum_range_reflect (fun i => term F n (i + 1)) n]
  apply Finset.sum_congr rfl
  intro i hi
  rw [Finset.mem_range] at hi
  exact term_neg F n _ _ (by omega)

theorem rule_neg (F : ℝ → ℝ) (n : ℕ) : rule (fun x => F (-x)) n = rule F n := by
  simp only [rule, T_neg]

/-- on the Pérez-Jordá grid, weight × integrand at node i (0-based, code orientation) is term i+1 of the N-point rule for
the reflected integrand -/
theorem IsPJGrid.term_eq {g : Grid ℝ} {N : ℕ} (hg : IsPJGrid g N) (F : ℝ → ℝ) (i : ℕ) (hi : i < N) :
    g.w[i]! * F (g.x[i]!) = term (fun x => F (-x)) N (i + 1) := by
  rw [getElemBang_of_getElemOpt _ _ _ (hg.w i hi), getElemBang_of_getElemOpt _ _ _ (hg.x i hi), term, nodeW_eq]

theorem IsPJGrid.w_eq {g : Grid ℝ} {N : ℕ} (hg : IsPJGrid g N) (i : ℕ) (hi : i < N) :
    g.w[i]! = sin (((i : ℝ) + 1) * π / ((N : ℝ) + 1)) ^ 4 := by
  rw [getElemBang_of_getElemOpt _ _ _ (hg.w i hi), theta]; push_cast; rfl

theorem IsPJGrid.x_eq {g : Grid ℝ} {N : ℕ} (hg : IsPJGrid g N) (i : ℕ) (hi : i < N) :
    g.x[i]! = -(xOf (((i : ℝ) + 1) * π / ((N : ℝ) + 1))) := by
  rw [getElemBang_of_getElemOpt _ _ _ (hg.x i hi), theta]; push_cast; rfl

/-- **Stage 2, final form**: the one-point scheme on the grid with N = 2^P − 1 points (P ≥ 2), full range, integrand F sampled
at the grid's abscissae: the value is the Pérez-Jordá rule `rule F n` for some n = 2^(j+1) − 1 ∈ {3, 7, …, N}; and n = N if
the convergence flag is false -/
theorem integrate_onePoint (g : Grid ℝ) (F : ℝ → ℝ) (tol : ℝ) (P : ℕ) (hP : 2 ≤ P)
    (ht : g.t = .onePoint) (hg : IsPJGrid g (2 ^ P - 1)) :
    ∃ j, 1 ≤ j ∧ j + 1 ≤ P ∧
      (integrate g (fun i => F (g.x[i]!)) tol 0 (2 ^ P - 1 - 1)).1 = rule F (2 ^ (j + 1) - 1) ∧
      ((integrate g (fun i => F (g.x[i]!)) tol 0 (2 ^ P - 1 - 1)).2 = false → j + 1 = P) := by
  obtain ⟨j, h1, h2, h3, h4⟩ := integrate_onePoint_rule g (fun i => F (g.x[i]!)) (fun x => F (-x)) tol P hP ht hg.maxN hg.M
    (fun i hi => hg.term_eq F i hi)
  exact ⟨j, h1, h2, by rw [h3, rule_neg], h4⟩

/-- **Stage 3, final form**: the two-point scheme on the grid with N = 3·2^P − 1 points (P ≥ 1), full range: the value is
`rule F m` for some m = 3·2^j − 1 ∈ {5, 11, …, N}; and m = N if the convergence flag is false -/
theorem integrate_twoPoint (g : Grid ℝ) (F : ℝ → ℝ) (tol : ℝ) (P : ℕ) (hP : 1 ≤ P)
    (ht : g.t = .twoPoint) (hg : IsPJGrid g (3 * 2 ^ P - 1)) :
    ∃ j, 1 ≤ j ∧ j ≤ P ∧
      (integrate g (fun i => F (g.x[i]!)) tol 0 (3 * 2 ^ P - 1 - 1)).1 = rule F (3 * 2 ^ j - 1) ∧
      ((integrate g (fun i => F (g.x[i]!)) tol 0 (3 * 2 ^ P - 1 - 1)).2 = false → j = P) := by
  obtain ⟨j, h1, h2, h3, h4⟩ := integrate_twoPoint_rule g (fun i => F (g.x[i]!)) (fun x => F (-x)) tol P hP ht hg.maxN hg.M
    (fun i hi => hg.term_eq F i hi)
  exact ⟨j, h1, h2, by rw [h3, rule_neg], h4⟩

/-! ### the grid size `initGrid` chooses (exact logarithms) -/

theorem floor_log_two (x : ℝ) (P : ℕ) (h1 : (2 : ℝ) ^ P ≤ x) (h2 : x < (2 : ℝ) ^ (P + 1)) :
    ⌊Real.log x / Real.log 2⌋₊ = P := by
  have hl : 0 < Real.log 2 := Real.log_pos (by norm_num)
  have hx : 0 < x := lt_of_lt_of_le (by positivity) h1
  rw [Nat.floor_eq_iff (div_nonneg (Real.log_nonneg (le_trans (one_le_pow₀ (by norm_num)) h1)) hl.le)]
  constructor
  · rw [le_div_iff₀ hl, ← Real.log_pow]
    exact Real.log_le_log (by positivity) h1
  · rw [div_lt_iff₀ hl]
    have : ((P : ℝ) + 1) * Real.log 2 = Real.log ((2 : ℝ) ^ (P + 1)) := by rw [Real.log_pow]; push_cast; ring
    rw [this]
    exact Real.log_lt_log hx h2

theorem gridPower_onePoint (points P : ℕ) (h1 : 2 ^ P ≤ points + 1) (h2 : points + 1 < 2 ^ (P + 1)) :
    gridPower (α := ℝ) .onePoint points = P := by
  show ⌊Real.log ((points + 1 : ℕ) : ℝ) / Real.log ((2 : ℕ) : ℝ)⌋₊ = P
  rw [Nat.cast_ofNat]
  exact floor_log_two _ P (by exact_mod_cast h1) (by exact_mod_cast h2)

theorem gridPower_twoPoint (points P : ℕ) (h1 : 3 * 2 ^ P ≤ points + 2) (h2 : points + 2 < 3 * 2 ^ (P + 1)) :
    gridPower (α := ℝ) .twoPoint points = P := by
  show ⌊Real.log (((points + 2 : ℕ) : ℝ) / ((3 : ℕ) : ℝ)) / Real.log ((2 : ℕ) : ℝ)⌋₊ = P
  rw [Nat.cast_ofNat, Nat.cast_ofNat]
  apply floor_log_two
  · rw [le_div_iff₀ (by norm_num)]
    have : ((3 * 2 ^ P : ℕ) : ℝ) ≤ ((points + 2 : ℕ) : ℝ) := by exact_mod_cast h1
    push_cast at this ⊢; linarith
  · rw [div_lt_iff₀ (by norm_num)]
    have : ((points + 2 : ℕ) : ℝ) < ((3 * 2 ^ (P + 1) : ℕ) : ℝ) := by exact_mod_cast h2
    push_cast at this ⊢; linarith

/-- `initGrid points ONEPOINT` over ℝ, 2^P ≤ points + 1 < 2^(P+1), P ≥ 1: the Pérez-Jordá grid with 2^P − 1 points -/
theorem initGrid_onePoint (points P : ℕ) (hP : 1 ≤ P) (h1 : 2 ^ P ≤ points + 1) (h2 : points + 1 < 2 ^ (P + 1)) :
    IsPJGrid (initGrid (α := ℝ) points .onePoint) (2 ^ P - 1) ∧ (initGrid (α := ℝ) points .onePoint).t = .onePoint := by
  obtain ⟨Q, rfl⟩ : ∃ Q, P = Q + 1 := ⟨P - 1, by omega⟩
  apply initGrid_spec points .onePoint (2 ^ (Q + 1) - 1) (2 ^ Q - 1)
  · rw [gridPower_onePoint points (Q + 1) h1 h2]; rfl
  · have := Nat.two_pow_pos Q; rw [pow_succ]; omega

/-- `initGrid points TWOPOINT` over ℝ, 3·2^P ≤ points + 2 < 3·2^(P+1), P ≥ 1: the Pérez-Jordá grid with 3·2^P − 1 points -/
theorem initGrid_twoPoint (points P : ℕ) (hP : 1 ≤ P) (h1 : 3 * 2 ^ P ≤ points + 2) (h2 : points + 2 < 3 * 2 ^ (P + 1)) :
    IsPJGrid (initGrid (α := ℝ) points .twoPoint) (3 * 2 ^ P - 1) ∧ (initGrid (α := ℝ) points .twoPoint).t = .twoPoint := by
  obtain ⟨Q, rfl⟩ : ∃ Q, P = Q + 1 := ⟨P - 1, by omega⟩
  apply initGrid_spec points .twoPoint (3 * 2 ^ (Q + 1) - 1) (3 * 2 ^ Q - 1)
  · rw [gridPower_twoPoint points (Q + 1) h1 h2]; rfl
  · have := Nat.two_pow_pos Q; rw [pow_succ]; omega


/-- **end to end, one-point**: `initGrid` followed by `integrate` over the full range, in exact arithmetic -/
theorem integrate_initGrid_onePoint (points P : ℕ) (hP : 2 ≤ P) (h1 : 2 ^ P ≤ points + 1) (h2 : points + 1 < 2 ^ (P + 1))
    (F : ℝ → ℝ) (tol : ℝ) :
    ∃ j, 1 ≤ j ∧ j + 1 ≤ P ∧
      (integrate (initGrid (α := ℝ) points .onePoint) (fun i => F ((initGrid (α := ℝ) points .onePoint).x[i]!)) tol 0
          (2 ^ P - 1 - 1)).1 = rule F (2 ^ (j + 1) - 1) ∧
      ((integrate (initGrid (α := ℝ) points .onePoint) (fun i => F ((initGrid (α := ℝ) points .onePoint).x[i]!)) tol 0
          (2 ^ P - 1 - 1)).2 = false → j + 1 = P) :=
  integrate_onePoint _ F tol P hP (initGrid_onePoint points P (by omega) h1 h2).2 (initGrid_onePoint points P (by omega) h1 h2).1

/-- **end to end, two-point** -/
theorem integrate_initGrid_twoPoint (points P : ℕ) (hP : 1 ≤ P) (h1 : 3 * 2 ^ P ≤ points + 2)
    (h2 : points + 2 < 3 * 2 ^ (P + 1)) (F : ℝ → ℝ) (tol : ℝ) :
    ∃ j, 1 ≤ j ∧ j ≤ P ∧
      (integrate (initGrid (α := ℝ) points .twoPoint) (fun i => F ((initGrid (α := ℝ) points .twoPoint).x[i]!)) tol 0
          (3 * 2 ^ P - 1 - 1)).1 = rule F (3 * 2 ^ j - 1) ∧
      ((integrate (initGrid (α := ℝ) points .twoPoint) (fun i => F ((initGrid (α := ℝ) points .twoPoint).x[i]!)) tol 0
          (3 * 2 ^ P - 1 - 1)).2 = false → j = P) :=
  integrate_twoPoint _ F tol P hP (initGrid_twoPoint points P hP h1 h2).2 (initGrid_twoPoint points P hP h1 h2).1

/-! ### Stage 4: the window `start`/`stop`

`sumTerms_eq` above is the exact statement for an arbitrary window: the first member of each visited pair is tested against
`start` only, the mirrored member against `stop` only; the midpoint term (and the two-point seed) is added regardless.
Both members range over the whole grid, so this is NOT the rule of the integrand cut to the window `[start, stop]`
(`sumTerms_window`, `sumTerms_window_counterexample`).  It is harmless when the integrand already vanishes outside the
window, which is how the library uses it (`integrate_window_of_zero`). -/

/-- the integrand cut to the window -/
def window (start stop : ℕ) (f : ℕ → ℝ) : ℕ → ℝ := fun i => if start ≤ i ∧ i ≤ stop then f i else 0

/-- exact relation to the rule of the windowed integrand: the code keeps, in excess, the first members above `stop` and the
mirrored members below `start` -/
theorem sumTerms_window (g : Grid ℝ) (f : ℕ → ℝ) (limit start stop shift skip : ℕ) (h : start ≤ stop) :
    sumTerms g f limit start stop shift skip
      = sumTerms g (window start stop f) limit 0 (g.maxN - 1) shift skip
        + ∑ j ∈ Finset.range (limit / 2 + 1),
            ((if stop < (skip * (2 * j) + 1) * shift - 1 then
                g.w[(skip * (2 * j) + 1) * shift - 1]! * f ((skip * (2 * j) + 1) * shift - 1) else 0)
             + (if g.maxN - ((skip * (2 * j) + 1) * shift - 1) - 1 < start then
                g.w[g.maxN - ((skip * (2 * j) + 1) * shift - 1) - 1]! * f (g.maxN - ((skip * (2 * j) + 1) * shift - 1) - 1)
                else 0)) := by
  rw [sumTerms_eq, sumTerms_eq, ← Finset.sum_add_distrib]
  apply Finset.sum_congr rfl
  intro j _
  have hm : g.maxN - ((skip * (2 * j) + 1) * shift - 1) - 1 ≤ g.maxN - 1 := by omega
  simp only [window, Nat.zero_le, if_true, hm]
  split_ifs <;> first | ring1 | (exfalso; omega)

/-- if the integrand vanishes outside the window, clipping changes nothing -/
theorem sumTerms_window_of_zero (g : Grid ℝ) (f : ℕ → ℝ) (limit start stop shift skip : ℕ)
    (hf : ∀ i, i < start ∨ stop < i → f i = 0) :
    sumTerms g f limit start stop shift skip = sumTerms g f limit 0 (g.maxN - 1) shift skip := by
  rw [sumTerms_eq, sumTerms_eq]
  apply Finset.sum_congr rfl
  intro j _
  have hm : g.maxN - ((skip * (2 * j) + 1) * shift - 1) - 1 ≤ g.maxN - 1 := by omega
  simp only [Nat.zero_le, if_true, hm]
  congr 1
  · split_ifs with h1
    · rfl
    · rw [hf _ (Or.inl (by omega)), mul_zero]
  · split_ifs with h1
    · rfl
    · rw [hf _ (Or.inr (by omega)), mul_zero]

theorem onePointLoop_window_of_zero (g : Grid ℝ) (f : ℕ → ℝ) (tol : ℝ) (start stop : ℕ)
    (hf : ∀ i, i < start ∨ stop < i → f i = 0) (fuel : ℕ) (s : OneSt ℝ) :
    onePointLoop g f tol start stop fuel s = onePointLoop g f tol 0 (g.maxN - 1) fuel s := by
  induction fuel generalizing s with
  | zero => rfl
  | succ fuel ih =>
    rw [onePointLoop, onePointLoop, sumTerms_window_of_zero g f _ start stop _ _ hf]
    simp only [ih]

theorem twoPointLoop_window_of_zero (g : Grid ℝ) (f : ℕ → ℝ) (tol : ℝ) (start stop : ℕ)
    (hf : ∀ i, i < start ∨ stop < i → f i = 0) (fuel : ℕ) (s : TwoSt ℝ) :
    twoPointLoop g f tol start stop fuel s = twoPointLoop g f tol 0 (g.maxN - 1) fuel s := by
  induction fuel generalizing s with
  | zero => rfl
  | succ fuel ih =>
    rw [twoPointLoop, twoPointLoop, sumTerms_window_of_zero g f _ start stop _ _ hf,
      sumTerms_window_of_zero g f _ start stop _ _ hf]
    simp only [ih]

/-- **Stage 4**: for ANY grid and either scheme, if the integrand vanishes outside `[start, stop]` then `integrate` with that
window returns exactly what it returns on the full range (value and flag) -/
theorem integrate_window_of_zero (g : Grid ℝ) (f : ℕ → ℝ) (tol : ℝ) (start stop : ℕ)
    (hf : ∀ i, i < start ∨ stop < i → f i = 0) :
    integrate g f tol start stop = integrate g f tol 0 (g.maxN - 1) := by
  unfold integrate
  simp only [onePointLoop_window_of_zero g f tol start stop hf, twoPointLoop_window_of_zero g f tol start stop hf]


/-- the excess is real: on the 7-point grid, last level of the one-point scheme (limit 3, stride 1), window [0, 3], integrand 1,
the code also adds node 4 (a first member above `stop`), so the result is not the sum for the windowed integrand -/
theorem sumTerms_window_counterexample (g : Grid ℝ) (hg : IsPJGrid g 7) :
    sumTerms g (fun _ => 1) 3 0 3 1 2 ≠ sumTerms g (window 0 3 (fun _ => 1)) 3 0 (g.maxN - 1) 1 2 := by
  rw [sumTerms_window g _ 3 0 3 1 2 (by norm_num), hg.maxN]
  have h4 : g.w[4]! = sin (theta 7 5) ^ 4 := getElemBang_of_getElemOpt _ _ _ (hg.w 4 (by norm_num))
  have hpos : 0 < sin (theta 7 5) := by
    apply sin_pos_of_pos_of_lt_pi
    · unfold theta; positivity
    · unfold theta
      have := pi_pos
      norm_num
      linarith
  have : (0 : ℝ) < g.w[4]! := by rw [h4]; positivity
  simp [Finset.sum_range_succ]
  linarith

/-! ### Stage 5: the transformed grids -/

/-- lower end of the window of `transformRMinMax(z, p)`: max(0, p − 7/√z) -/
noncomputable def winMin (z p : ℝ) : ℝ := if 0 < p - 7 * (1 / Real.sqrt z) then p - 7 * (1 / Real.sqrt z) else 0
/-- upper end: p + 9/√z -/
noncomputable def winMax (z p : ℝ) : ℝ := p + 9 * (1 / Real.sqrt z)
/-- half-width `rmid` and offset `amid = rmid + rmin` of the affine map -/
noncomputable def winMid (z p : ℝ) : ℝ := 1 / 2 * (winMax z p - winMin z p)
noncomputable def winOff (z p : ℝ) : ℝ := winMid z p + winMin z p

theorem transformRMinMax_eq (g : Grid ℝ) (z p : ℝ) :
    transformRMinMax g z p =
      { g with x := g.x.map fun xi => winMid z p * xi + winOff z p, w := g.w.map fun wi => wi * winMid z p } := by
  simp only [transformRMinMax, winMid, winOff, winMax, winMin]
  simp only [Nat.cast_ofNat]
  rfl


theorem transformZeroInf_eq (g : Grid ℝ) :
    transformZeroInf g =
      { g with x := g.x.map fun xi => zeroInfMap xi,
               w := (Array.range g.maxN).map fun i => g.w[i]! / (Real.log 2 * ((1 : ℝ) - g.x[i]!)) } := by
  simp only [transformZeroInf, Nat.cast_ofNat, Nat.cast_one]
  rfl

/-- nodes and weights after `transformRMinMax`: the affine images -/
theorem transformRMinMax_term {g : Grid ℝ} {N : ℕ} (hg : IsPJGrid g N) (z p : ℝ) (G : ℝ → ℝ) (i : ℕ) (hi : i < N) :
    (transformRMinMax g z p).w[i]! * G ((transformRMinMax g z p).x[i]!)
      = term (fun y => winMid z p * G (winMid z p * (-y) + winOff z p)) N (i + 1) := by
  have hw : (transformRMinMax g z p).w[i]? = some (sin (theta N (i + 1)) ^ 4 * winMid z p) := by
    rw [transformRMinMax_eq]
    simp only [Array.getElem?_map, hg.w i hi, Option.map_some]
  have hx : (transformRMinMax g z p).x[i]? = some (winMid z p * (-(xOf (theta N (i + 1)))) + winOff z p) := by
    rw [transformRMinMax_eq]
    simp only [Array.getElem?_map, hg.x i hi, Option.map_some]
  rw [getElemBang_of_getElemOpt _ _ _ hw, getElemBang_of_getElemOpt _ _ _ hx, term, nodeW_eq]
  ring

/-- nodes and weights after `transformZeroInf`: the logarithmic images, weights divided by ln 2·(1 − x) -/
theorem transformZeroInf_term {g : Grid ℝ} {N : ℕ} (hg : IsPJGrid g N) (G : ℝ → ℝ) (i : ℕ) (hi : i < N) :
    (transformZeroInf g).w[i]! * G ((transformZeroInf g).x[i]!)
      = term (fun y => G (zeroInfMap (-y)) / (Real.log 2 * (1 - (-y)))) N (i + 1) := by
  have hw : (transformZeroInf g).w[i]? =
      some (sin (theta N (i + 1)) ^ 4 / (Real.log 2 * (1 - (-(xOf (theta N (i + 1))))))) := by
    rw [transformZeroInf_eq]
    simp only [Array.getElem?_map, Array.getElem?_range, hg.maxN, hi, if_true, Option.map_some]
    rw [getElemBang_of_getElemOpt _ _ _ (hg.w i hi), getElemBang_of_getElemOpt _ _ _ (hg.x i hi)]
  have hx : (transformZeroInf g).x[i]? = some (zeroInfMap (-(xOf (theta N (i + 1))))) := by
    rw [transformZeroInf_eq]
    simp only [Array.getElem?_map, hg.x i hi, Option.map_some]
  rw [getElemBang_of_getElemOpt _ _ _ hw, getElemBang_of_getElemOpt _ _ _ hx, term, nodeW_eq]
  ring

/-- **Stage 5, window [rmin, rmax], one-point**: on the affinely transformed grid, for r ↦ G(r) sampled at the transformed
abscissae, `integrate` is the rule of the transformed integrand x ↦ rmid·G(rmid·x + amid) -/
theorem integrate_onePoint_rMinMax (g : Grid ℝ) (G : ℝ → ℝ) (z p tol : ℝ) (P : ℕ) (hP : 2 ≤ P)
    (ht : g.t = .onePoint) (hg : IsPJGrid g (2 ^ P - 1)) :
    ∃ j, 1 ≤ j ∧ j + 1 ≤ P ∧
      (integrate (transformRMinMax g z p) (fun i => G ((transformRMinMax g z p).x[i]!)) tol 0 (2 ^ P - 1 - 1)).1
        = rule (fun x => winMid z p * G (winMid z p * x + winOff z p)) (2 ^ (j + 1) - 1) ∧
      ((integrate (transformRMinMax g z p) (fun i => G ((transformRMinMax g z p).x[i]!)) tol 0 (2 ^ P - 1 - 1)).2 = false
        → j + 1 = P) := by
  obtain ⟨j, h1, h2, h3, h4⟩ := integrate_onePoint_rule (transformRMinMax g z p)
    (fun i => G ((transformRMinMax g z p).x[i]!)) _ tol P hP ht hg.maxN hg.M (fun i hi => transformRMinMax_term hg z p G i hi)
  exact ⟨j, h1, h2, by rw [h3]; exact rule_neg (fun x => winMid z p * G (winMid z p * x + winOff z p)) _, h4⟩

theorem integrate_twoPoint_rMinMax (g : Grid ℝ) (G : ℝ → ℝ) (z p tol : ℝ) (P : ℕ) (hP : 1 ≤ P)
    (ht : g.t = .twoPoint) (hg : IsPJGrid g (3 * 2 ^ P - 1)) :
    ∃ j, 1 ≤ j ∧ j ≤ P ∧
      (integrate (transformRMinMax g z p) (fun i => G ((transformRMinMax g z p).x[i]!)) tol 0 (3 * 2 ^ P - 1 - 1)).1
        = rule (fun x => winMid z p * G (winMid z p * x + winOff z p)) (3 * 2 ^ j - 1) ∧
      ((integrate (transformRMinMax g z p) (fun i => G ((transformRMinMax g z p).x[i]!)) tol 0 (3 * 2 ^ P - 1 - 1)).2 = false
        → j = P) := by
  obtain ⟨j, h1, h2, h3, h4⟩ := integrate_twoPoint_rule (transformRMinMax g z p)
    (fun i => G ((transformRMinMax g z p).x[i]!)) _ tol P hP ht hg.maxN hg.M (fun i hi => transformRMinMax_term hg z p G i hi)
  exact ⟨j, h1, h2, by rw [h3]; exact rule_neg (fun x => winMid z p * G (winMid z p * x + winOff z p)) _, h4⟩

/-- **Stage 5, half line, one-point**: on the logarithmically transformed grid `integrate` is the rule of the transformed
integrand x ↦ G(1 − log(1−x)/ln 2)/(ln 2·(1−x)) (the integrand of C15b's `T_zeroInf`, `zeroInf_rule_tendsto`) -/
theorem integrate_onePoint_zeroInf (g : Grid ℝ) (G : ℝ → ℝ) (tol : ℝ) (P : ℕ) (hP : 2 ≤ P)
    (ht : g.t = .onePoint) (hg : IsPJGrid g (2 ^ P - 1)) :
    ∃ j, 1 ≤ j ∧ j + 1 ≤ P ∧
      (integrate (transformZeroInf g) (fun i => G ((transformZeroInf g).x[i]!)) tol 0 (2 ^ P - 1 - 1)).1
        = rule (fun x => G (zeroInfMap x) / (Real.log 2 * (1 - x))) (2 ^ (j + 1) - 1) ∧
      ((integrate (transformZeroInf g) (fun i => G ((transformZeroInf g).x[i]!)) tol 0 (2 ^ P - 1 - 1)).2 = false
        → j + 1 = P) := by
  obtain ⟨j, h1, h2, h3, h4⟩ := integrate_onePoint_rule (transformZeroInf g)
    (fun i => G ((transformZeroInf g).x[i]!)) _ tol P hP ht hg.maxN hg.M (fun i hi => transformZeroInf_term hg G i hi)
  exact ⟨j, h1, h2, by rw [h3]; exact rule_neg (fun x => G (zeroInfMap x) / (Real.log 2 * (1 - x))) _, h4⟩

theorem integrate_twoPoint_zeroInf (g : Grid ℝ) (G : ℝ → ℝ) (tol : ℝ) (P : ℕ) (hP : 1 ≤ P)
    (ht : g.t = .twoPoint) (hg : IsPJGrid g (3 * 2 ^ P - 1)) :
    ∃ j, 1 ≤ j ∧ j ≤ P ∧
      (integrate (transformZeroInf g) (fun i => G ((transformZeroInf g).x[i]!)) tol 0 (3 * 2 ^ P - 1 - 1)).1
        = rule (fun x => G (zeroInfMap x) / (Real.log 2 * (1 - x))) (3 * 2 ^ j - 1) ∧
      ((integrate (transformZeroInf g) (fun i => G ((transformZeroInf g).x[i]!)) tol 0 (3 * 2 ^ P - 1 - 1)).2 = false
        → j = P) := by
  obtain ⟨j, h1, h2, h3, h4⟩ := integrate_twoPoint_rule (transformZeroInf g)
    (fun i => G ((transformZeroInf g).x[i]!)) _ tol P hP ht hg.maxN hg.M (fun i hi => transformZeroInf_term hg G i hi)
  exact ⟨j, h1, h2, by rw [h3]; exact rule_neg (fun x => G (zeroInfMap x) / (Real.log 2 * (1 - x))) _, h4⟩

theorem winMin_lt_winMax (z p : ℝ) (hz : 0 < z) (hp : 0 ≤ p) : winMin z p < winMax z p := by
  have hs : 0 < 1 / Real.sqrt z := by positivity
  unfold winMin winMax
  split_ifs <;> linarith

/-- the rule the windowed grid computes converges to ∫_{rmin}^{rmax} G for continuous G -/
theorem rMinMax_rule_tendsto (G : ℝ → ℝ) (hG : Continuous G) (z p : ℝ) (hz : 0 < z) (hp : 0 ≤ p) :
    Tendsto (fun n : ℕ => rule (fun x => winMid z p * G (winMid z p * x + winOff z p)) n) atTop
      (𝓝 (∫ r in (winMin z p)..(winMax z p), G r)) := by
  have h := rule_tendsto_integral (fun x => winMid z p * G (winMid z p * x + winOff z p)) (by fun_prop)
  rw [← window_change_of_variables G _ _ (winMin_lt_winMax z p hz hp)]
  convert h using 3
  funext t
  simp only [winMid, winOff]
  ring


end Ecpint.C15c
