/-
C05 — integrator results depend only on the current inputs, not on the call history.

Statements only; the model is Ecpint/Model/History.lean, the container preparation modes come
from the translator (Ecpint/Gen/ApiInit.lean, regenerated from api.cpp on every run).
-/
import Ecpint.Model.History
import Ecpint.Gen.ApiInit

namespace Ecpint.C05
open Ecpint.History

/-- the configuration of the code as it is now -/
def cfg (natoms : Nat) : Cfg :=
  { intsInit := Gen.apiIntsInit, d1Init := Gen.apiD1Init, d2Init := Gen.apiD2Init, natoms := natoms }

theorem accum_replicate (c : Coords) (n k i : Nat) (h : i + k ≤ n) :
    accum c n i (List.replicate k []) = List.replicate k [c] := by
  induction k generalizing i with
  | zero => rfl
  | succ k ih =>
    have hi : i < n := by omega
    simp [List.replicate_succ, accum, hi]
    exact ih (i + 1) (by omega)

theorem step_refines (n : Nat) (s : Spec) (op : Op) :
    step (cfg n) (abs (cfg n) s) op = abs (cfg n) (Spec.step s op) := by
  cases op <;>
    simp [step, abs, Spec.step, cfg, Gen.apiIntsInit, Gen.apiD1Init, Gen.apiD2Init, prep, absList,
      accum_replicate]

/-- **Refinement**: whatever the history, the containers are exactly those of the abstract
machine that only remembers at which coordinates each quantity was last computed. -/
theorem run_refines (n : Nat) (ops : List Op) (s : Spec) :
    run (cfg n) (abs (cfg n) s) ops = abs (cfg n) (Spec.run s ops) := by
  induction ops generalizing s with
  | nil => rfl
  | cons op ops ih =>
    simp only [run, Spec.run, List.foldl_cons] at *
    rw [step_refines]
    exact ih _

theorem init_abs (n : Nat) (c : Coords) : init c = abs (cfg n) (Spec.init c) := rfl

theorem run_append (cfg : Cfg) (s : State) (a b : List Op) :
    run cfg s (a ++ b) = run cfg (run cfg s a) b := by
  simp [run, List.foldl_append]

/-- coordinates held after a history do not depend on the containers -/
theorem cur_run (n : Nat) (ops : List Op) (s : Spec) :
    (run (cfg n) (abs (cfg n) s) ops).cur = (Spec.run s ops).cur := by
  rw [run_refines]; rfl

/-- **C05, integrals**: after any history, `compute_integrals` leaves what a freshly
constructed integrator at the current coordinates computes. -/
theorem history_independent_ints (n : Nat) (c0 : Coords) (ops : List Op) :
    (run (cfg n) (init c0) (ops ++ [.compI])).ints
      = (run (cfg n) (init (run (cfg n) (init c0) ops).cur) [.compI]).ints := by
  rw [run_append, init_abs n c0, run_refines, init_abs n, run_refines, run_refines]
  rfl

/-- **C05, first derivatives** -/
theorem history_independent_d1 (n : Nat) (c0 : Coords) (ops : List Op) :
    (run (cfg n) (init c0) (ops ++ [.compD1])).d1
      = (run (cfg n) (init (run (cfg n) (init c0) ops).cur) [.compD1]).d1 := by
  rw [run_append, init_abs n c0, run_refines, init_abs n, run_refines, run_refines]
  rfl

/-- **C05, second derivatives** -/
theorem history_independent_d2 (n : Nat) (c0 : Coords) (ops : List Op) :
    (run (cfg n) (init c0) (ops ++ [.compD2])).d2
      = (run (cfg n) (init (run (cfg n) (init c0) ops).cur) [.compD2]).d2 := by
  rw [run_append, init_abs n c0, run_refines, init_abs n, run_refines, run_refines]
  rfl

/-- the derivative lists keep their documented lengths (or are still empty) -/
theorem lengths (n : Nat) (c0 : Coords) (ops : List Op) :
    let s := run (cfg n) (init c0) ops
    (s.d1.length = 0 ∨ s.d1.length = 3 * n) ∧
    (s.d2.length = 0 ∨ s.d2.length = (3 * n * (3 * n + 1)) / 2) := by
  intro s
  have hs : s = abs (cfg n) (Spec.run (Spec.init c0) ops) := by
    show run (cfg n) (init c0) ops = _
    rw [init_abs n c0, run_refines]
  rw [hs]
  constructor
  · cases h : (Spec.run (Spec.init c0) ops).d1 <;> simp [abs, absList, h, Cfg.n1, cfg]
  · cases h : (Spec.run (Spec.init c0) ops).d2 <;> simp [abs, absList, h, Cfg.n2, cfg]

/-- what a fresh integrator returns: every slot holds exactly the fresh result -/
theorem fresh_d1 (n : Nat) (c : Coords) :
    (run (cfg n) (init c) [.compD1]).d1 = List.replicate (3 * n) [c] := by
  rw [init_abs n c, run_refines]; rfl

theorem fresh_d2 (n : Nat) (c : Coords) :
    (run (cfg n) (init c) [.compD2]).d2 = List.replicate ((3 * n * (3 * n + 1)) / 2) [c] := by
  rw [init_abs n c, run_refines]; rfl

/-- recomputing without changing anything returns identical results -/
theorem recompute_idempotent (n : Nat) (c0 : Coords) (ops : List Op) (op : Op) :
    run (cfg n) (init c0) (ops ++ [op, op]) = run (cfg n) (init c0) (ops ++ [op]) := by
  rw [run_append, run_append, init_abs n c0, run_refines, run_refines, run_refines]
  congr 1
  cases op <;> simp [Spec.run, Spec.step]

/-- reads between computes return the last computed version, not the current coordinates:
the documented workflow (update, then recompute) is therefore *required* — non-vacuity
witness that the model distinguishes the two. -/
example : (run (cfg 2) (init ⟨0, 0⟩) [.compI, .updShells 1]).ints = [⟨0, 0⟩] := by decide

/-- non-vacuity: a concrete length-6 history on a 2-atom system -/
example :
    (run (cfg 2) (init ⟨0, 0⟩) [.compD1, .updShells 1, .compD1, .updEcps 2, .compD2, .compD1]).d1
      = List.replicate 6 [⟨1, 2⟩] := by decide

end Ecpint.C05
