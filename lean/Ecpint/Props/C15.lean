/- C15 — adaptive quadrature: structure.  Model: Ecpint/Model/Quad.lean. -/
import Ecpint.Model.Quad
namespace Ecpint.C15
open Ecpint.Quad

/-- the grid sizes the library itself asks for: 128 → 127, 1024 → 1023 one-point; 256 → 191 two-point -/
theorem library_grid_sizes : gridSize .onePoint 7 = 127 ∧ gridSize .onePoint 10 = 1023 ∧ gridSize .twoPoint 6 = 191 := by decide

end Ecpint.C15
