/-
C15 — adaptive Gauss–Chebyshev quadrature: structure.  Model: Ecpint/Model/Quad.lean (agrees bit for bit with
gaussquad.cpp at Float, see checks/c15.py).

Proved, for EVERY grid size:
  * the trigonometric recurrence of `initGrid` produces sin and cos of the equally spaced angles, so the
    abscissae and weights are those of the Pérez-Jordá rule;
  * `sumTerms`: at level k of the one-point scheme the visited indices are exactly the odd multiples of the
    current stride (the NEW nodes of the doubled rule), each once; the levels together with the midpoint use
    every node of the grid exactly once; the two-point scheme visits the multiples ≡ ±1 (mod 6) of its stride;
  * the interval transformations: what they do to nodes and weights, the change of variables they implement,
    and the derivative of the half-line map (the weight factor).
Not proved: that the acceptance tests imply the error bound (Pérez-Jordá's heuristic; see the recorded finding
`premature-acceptance`).
-/
import Ecpint.Model.Quad
import Ecpint.Lemmas.Quad
import Mathlib.Tactic.FieldSimp
import Mathlib.Tactic.Ring
import Mathlib.Tactic.Linarith
import Mathlib.Analysis.SpecialFunctions.Trigonometric.Basic
import Mathlib.Analysis.SpecialFunctions.Log.Deriv
import Mathlib.MeasureTheory.Integral.IntervalIntegral.Basic
import Mathlib.Data.List.Perm.Basic

namespace Ecpint.C15
open Ecpint.Quad Ecpint.QuadLemmas

/-- the grid sizes the library itself asks for: 128 → 127, 1024 → 1023 one-point; 256 → 191 two-point -/
theorem library_grid_sizes : gridSize .onePoint 7 = 127 ∧ gridSize .onePoint 10 = 1023 ∧ gridSize .twoPoint 6 = 191 := by decide

/-! ### the grid -/

/-- after n steps the recurrence holds ((n+1)·z1, sin((n+1)·z1), cos((n+1)·z1)) -/
theorem trig_recurrence (z1 : ℝ) (n : ℕ) :
    (trigStep z1 (Real.cos z1) (Real.sin z1))^[n] (z1, Real.sin z1, Real.cos z1)
      = (((n : ℝ) + 1) * z1, Real.sin (((n : ℝ) + 1) * z1), Real.cos (((n : ℝ) + 1) * z1)) := by
  induction n with
  | zero => simp
  | succ n ih =>
    rw [Function.iterate_succ_apply', ih]
    have h : ((n + 1 : ℕ) : ℝ) + 1 = ((n : ℝ) + 1) + 1 := by push_cast; ring
    simp only [trigStep, Prod.mk.injEq]
    rw [h, add_mul ((n : ℝ) + 1) 1 z1, one_mul, Real.sin_add, Real.cos_add]
    refine ⟨rfl, ?_, ?_⟩ <;> ring

/-- the mirrored halves are consistent: the node at angle π − θ has the opposite abscissa and the same weight -/
theorem node_mirror (θ : ℝ) :
    nodeX (2 / (3 * Real.pi)) (Real.pi - θ) (Real.sin (Real.pi - θ)) (Real.cos (Real.pi - θ))
        = -(nodeX (2 / (3 * Real.pi)) θ (Real.sin θ) (Real.cos θ)) ∧
    nodeW (Real.sin (Real.pi - θ)) = nodeW (Real.sin θ) := by
  rw [Real.sin_pi_sub, Real.cos_pi_sub]
  refine ⟨?_, rfl⟩
  simp only [nodeX]
  have hpi := Real.pi_ne_zero
  push_cast
  field_simp
  ring

/-! ### index sets of the nested rules -/

/-- both members of every visited pair, in visiting order -/
def visited (maxN limit shift skip : ℕ) : List ℕ :=
  (sumIndices maxN limit shift skip).flatMap fun q => [q.1, q.2]

/-- `visited` as one `flatMap` over the loop counter -/
theorem visited_eq (maxN limit shift skip : ℕ) :
    visited maxN limit shift skip = (List.range (limit / 2 + 1)).flatMap fun j =>
      [(skip * (2 * j) + 1) * shift - 1, maxN - ((skip * (2 * j) + 1) * shift - 1) - 1] :=
  flatMap_sumIndices maxN limit shift skip

theorem visited_length (maxN limit shift skip : ℕ) :
    (visited maxN limit shift skip).length = 2 * (limit / 2 + 1) := by
  rw [visited_eq, length_flatMap_pair, List.length_range]

/-- one-point level k in closed form: the pairs `(4j+1)·s − 1`, `(4(2^k−1−j)+3)·s − 1`, j < 2^k -/
theorem visited_onePoint (P k : ℕ) (hk : k + 2 ≤ P) :
    visited (2 ^ P - 1) (2 ^ (k + 1) - 1) (2 ^ (P - 2 - k)) 2
      = (List.range (2 ^ k)).flatMap fun j =>
          [(4 * j + 1) * 2 ^ (P - 2 - k) - 1, (4 * (2 ^ k - 1 - j) + 3) * 2 ^ (P - 2 - k) - 1] := by
  rw [visited_eq, half_limit]
  apply List.flatMap_congr
  intro j hj
  rw [List.mem_range] at hj
  rw [two_pow_split_one P k hk, mirror_one _ _ j hj (Nat.two_pow_pos _)]
  have : 2 * (2 * j) = 4 * j := by ring
  rw [this]

/-- two-point level k in closed form -/
theorem visited_twoPoint (P k : ℕ) (hk : k + 1 ≤ P) :
    visited (3 * 2 ^ P - 1) (2 ^ (k + 1) - 1) (2 ^ (P - 1 - k)) 3
      = (List.range (2 ^ k)).flatMap fun j =>
          [(6 * j + 1) * 2 ^ (P - 1 - k) - 1, (6 * (2 ^ k - 1 - j) + 5) * 2 ^ (P - 1 - k) - 1] := by
  rw [visited_eq, half_limit]
  apply List.flatMap_congr
  intro j hj
  rw [List.mem_range] at hj
  rw [two_pow_split_two P k hk, mirror_two _ _ j hj (Nat.two_pow_pos _)]
  have : 3 * (2 * j) = 6 * j := by ring
  rw [this]

/-- **one-point scheme, level k** (grid 2^P − 1, stride 2^(P−2−k), `limit = n = 2^(k+1) − 1`): the visited
indices are exactly `m·stride − 1` for the odd m < 2^(k+2), each once — the new nodes of the doubled rule. -/
theorem onePoint_level_indices (P k : ℕ) (hk : k + 2 ≤ P) :
    (visited (2 ^ P - 1) (2 ^ (k + 1) - 1) (2 ^ (P - 2 - k)) 2).Perm
      ((List.range (2 ^ (k + 1))).map fun i => (2 * i + 1) * 2 ^ (P - 2 - k) - 1) := by
  have hs : 1 ≤ 2 ^ (P - 2 - k) := Nat.two_pow_pos _
  apply perm_of_nodup_subset_length (nodup_odd_stride _ _ hs)
  · intro x hx
    rw [List.mem_map] at hx
    obtain ⟨i, hi, rfl⟩ := hx
    rw [List.mem_range, pow_succ] at hi
    rw [visited_onePoint P k hk, List.mem_flatMap]
    rcases Nat.even_or_odd' i with ⟨j, rfl | rfl⟩
    · refine ⟨j, List.mem_range.2 (by omega), ?_⟩
      have : 2 * (2 * j) + 1 = 4 * j + 1 := by ring
      rw [this]; simp
    · refine ⟨2 ^ k - 1 - j, List.mem_range.2 (by omega), ?_⟩
      have h1 : 2 ^ k - 1 - (2 ^ k - 1 - j) = j := by omega
      have : 2 * (2 * j + 1) + 1 = 4 * j + 3 := by ring
      rw [h1, this]; simp
  · rw [visited_length, half_limit, List.length_map, List.length_range, pow_succ]; omega

/-- every node of the grid is used exactly once: the midpoint and the levels 0 … P−2 partition `[0, 2^P − 1)` -/
theorem onePoint_nodes_partition (P : ℕ) (hP : 1 ≤ P) :
    (([2 ^ (P - 1) - 1] ++ (List.range (P - 1)).flatMap fun k =>
        visited (2 ^ P - 1) (2 ^ (k + 1) - 1) (2 ^ (P - 2 - k)) 2)).Perm (List.range (2 ^ P - 1)) := by
  apply perm_of_nodup_subset_length List.nodup_range
  · intro x hx
    rw [List.mem_range] at hx
    rcases dyadic_decomp P (x + 1) (by omega) (by omega) with h | ⟨k, hk, i, hi, h⟩
    · rw [List.mem_append]; left
      rw [List.mem_singleton]; omega
    · rw [List.mem_append]; right
      rw [List.mem_flatMap]
      refine ⟨k, List.mem_range.2 hk, ?_⟩
      rw [(onePoint_level_indices P k (by omega)).mem_iff, List.mem_map]
      exact ⟨i, List.mem_range.2 hi, by omega⟩
  · rw [List.length_append, List.length_range, List.length_singleton,
      length_flatMap_levels _ (fun k => by rw [visited_length, half_limit, pow_succ]; omega)]
    have h1 : P - 1 + 1 = P := by omega
    have h2 : 2 ≤ 2 ^ P := by
      calc 2 = 2 ^ 1 := rfl
        _ ≤ 2 ^ P := Nat.pow_le_pow_right (by norm_num) hP
    rw [h1]; omega

/-- **two-point scheme, level k** (grid 3·2^P − 1, stride 2^(P−1−k), `limit = (2m−1)/3 = 2^(k+1) − 1` for
m = 3·2^k − 1): the visited indices are `m'·stride − 1` for m' ≡ 1 or 5 (mod 6), m' < 6·2^k, each once. -/
theorem twoPoint_level_indices (P k : ℕ) (hk : k + 1 ≤ P) :
    (visited (3 * 2 ^ P - 1) (2 ^ (k + 1) - 1) (2 ^ (P - 1 - k)) 3).Perm
      ((List.range (2 ^ k)).flatMap fun j =>
        [(6 * j + 1) * 2 ^ (P - 1 - k) - 1, (6 * (2 ^ k - 1 - j) + 5) * 2 ^ (P - 1 - k) - 1]) := by
  rw [visited_twoPoint P k hk]

/-- all visited indices are inside the grid (`0 ≤ ix < maxN`), for every level of both schemes -/
theorem visited_in_range_onePoint (P k : ℕ) (hk : k + 2 ≤ P) :
    ∀ i ∈ visited (2 ^ P - 1) (2 ^ (k + 1) - 1) (2 ^ (P - 2 - k)) 2, i < 2 ^ P - 1 := by
  intro x hx
  rw [(onePoint_level_indices P k hk).mem_iff, List.mem_map] at hx
  obtain ⟨i, hi, rfl⟩ := hx
  rw [List.mem_range] at hi
  have hs : 1 ≤ 2 ^ (P - 2 - k) := Nat.two_pow_pos _
  have h1 : (2 * i + 1) * 2 ^ (P - 2 - k) < 4 * 2 ^ k * 2 ^ (P - 2 - k) :=
    Nat.mul_lt_mul_of_pos_right (by rw [pow_succ] at hi; omega) hs
  have h2 : 1 ≤ (2 * i + 1) * 2 ^ (P - 2 - k) := Nat.mul_pos (by omega) hs
  rw [two_pow_split_one P k hk]; omega

theorem visited_in_range_twoPoint (P k : ℕ) (hk : k + 1 ≤ P) :
    ∀ i ∈ visited (3 * 2 ^ P - 1) (2 ^ (k + 1) - 1) (2 ^ (P - 1 - k)) 3, i < 3 * 2 ^ P - 1 := by
  intro x hx
  rw [visited_twoPoint P k hk, List.mem_flatMap] at hx
  obtain ⟨j, hj, hx⟩ := hx
  rw [List.mem_range] at hj
  have hs : 1 ≤ 2 ^ (P - 1 - k) := Nat.two_pow_pos _
  have h1 : (6 * j + 1) * 2 ^ (P - 1 - k) < 6 * 2 ^ k * 2 ^ (P - 1 - k) :=
    Nat.mul_lt_mul_of_pos_right (by omega) hs
  have h2 : (6 * (2 ^ k - 1 - j) + 5) * 2 ^ (P - 1 - k) < 6 * 2 ^ k * 2 ^ (P - 1 - k) :=
    Nat.mul_lt_mul_of_pos_right (by omega) hs
  have h3 : 1 ≤ (6 * j + 1) * 2 ^ (P - 1 - k) := Nat.mul_pos (by omega) hs
  have h4 : 1 ≤ (6 * (2 ^ k - 1 - j) + 5) * 2 ^ (P - 1 - k) := Nat.mul_pos (by omega) hs
  rw [two_pow_split_two P k hk]
  simp only [List.mem_cons, List.not_mem_nil, or_false] at hx
  rcases hx with rfl | rfl <;> omega

/-! ### interval transformations -/

/-- the linear map of `transformRMinMax` implements the change of variables
∫_{rmin}^{rmax} g = ∫_{-1}^{1} g(rmid·t + amid)·rmid dt with rmid = (rmax−rmin)/2, amid = rmid + rmin -/
theorem window_change_of_variables (g : ℝ → ℝ) (rmin rmax : ℝ) (h : rmin < rmax) :
    ∫ t in (-1 : ℝ)..1, g ((1 / 2 * (rmax - rmin)) * t + (1 / 2 * (rmax - rmin) + rmin)) * (1 / 2 * (rmax - rmin))
      = ∫ r in rmin..rmax, g r := by
  have _ := h
  rw [intervalIntegral.integral_mul_const, mul_comm]
  have := intervalIntegral.smul_integral_comp_mul_add (a := (-1:ℝ)) (b := 1) g (1 / 2 * (rmax - rmin)) (1 / 2 * (rmax - rmin) + rmin)
  rw [smul_eq_mul] at this
  rw [this]
  congr 1 <;> ring

/-- the half-line map x ↦ 1 − log(1−x)/log 2 sends −1 to 0 and has derivative 1/(log 2·(1−x)) on x < 1 —
the factor `transformZeroInf` puts on the weights -/
theorem zeroInf_map (x : ℝ) (hx : x < 1) :
    (1 - Real.log (1 - (-1 : ℝ)) / Real.log 2 = 0) ∧
    HasDerivAt (fun x : ℝ => 1 - Real.log (1 - x) / Real.log 2) (1 / (Real.log 2 * (1 - x))) x := by
  have hl : Real.log 2 ≠ 0 := (Real.log_pos (by norm_num)).ne'
  constructor
  · have : (1 - (-1 : ℝ)) = 2 := by norm_num
    rw [this, div_self hl, sub_self]
  · have h1 : (1 - x) ≠ 0 := by linarith
    have := ((((hasDerivAt_id' x).const_sub 1).log h1).div_const (Real.log 2)).const_sub 1
    have e : 1 / (Real.log 2 * (1 - x)) = -(-1 / (1 - x) / Real.log 2) := by
      field_simp
    rw [e]
    exact this

end Ecpint.C15
