/-
C03 — analytic second derivatives of a shell pair: the assembly.

Model: Ecpint/Model/Deriv.lean (`N_INDEX`, `jaas`, `jbbs` from Gen/IndexMaps.lean, regenerated every run).
Proved here for EVERY angular momentum, over any commutative ring:
  * `left_shell_second_derivative` and `mixed_second_derivative` return the l−2 / l / l+2 resp.
    (l_A ± 1, l_B ± 1) combinations for every component, every guard/clamp is only met by a zero
    multiplier, the zero-filled stand-in blocks for s shells only meet zero multipliers;
  * the 45-matrix layout of `compute_shell_pair_second_derivative`, the translational sum rules
    AC = −(AA + AB), BC = −(BB + BA), CC = AA + AB + BA + BB, the irrelevance of the write order of the
    CC block, and the conventions returned when a shell sits on the ECP centre (these are exactly the
    hypothesis `LowLevelConvention` of C04).
-/
import Ecpint.Model.Deriv
import Ecpint.Props.C02
import Mathlib.Tactic.Ring
import Mathlib.Tactic.Linarith

namespace Ecpint.C03
open Ecpint.Deriv Ecpint.C02

/-! ### index tables -/

/-- position of the symmetric component {p,q} among xx xy xz yy yz zz -/
def symIdx (p q : Nat) : Nat :=
  if min p q = 0 then max p q else if min p q = 1 then max p q + 2 else 5

/-- `jbbs[3p+q] = 3q+p` (transposed component) -/
theorem jbbs_spec : ∀ p < 3, ∀ q < 3, Gen.jbbs.getD (3 * p + q) 0 = 3 * q + p := by decide
/-- `jaas[3p+q]` is the symmetric component of (p,q) -/
theorem jaas_spec : ∀ p < 3, ∀ q < 3, Gen.jaas.getD (3 * p + q) 0 = symIdx p q := by decide

section
variable {R : Type} [CommRing R]

/-! ### left_shell_second_derivative -/

/-- `Q_minus.dims[0]` as the routine sees it: the (LA−2)-shell when LA > 1, a 1-row zero block otherwise -/
def qmRows2 (LA : Nat) : Nat := if LA > 1 then ncart (LA - 2) else 1

/-- **six second derivatives with respect to one centre**, for every component `a` and p ≤ q:
a_p(a_p−1)·Q₋[a−2e_p] − 2(2a_p+1)·Q₀[a] + 4·Q₊[a+2e_p] on the diagonal,
a_p a_q·Q₋[a−e_p−e_q] − 2a_p·Q₀[a−e_p+e_q] − 2a_q·Q₀[a+e_p−e_q] + 4·Q₊[a+e_p+e_q] off it;
a term is absent exactly when its integer multiplier is zero. -/
theorem leftSecond_spec (a : Nat × Nat × Nat) (p q : Nat) (hpq : p ≤ q) (hq : q < 3) (nB : Nat)
    (Qm Q0 Qp : Blk R) :
    leftSecond (deg a) (qmRows2 (deg a)) Qm Q0 Qp (symIdx p q) (rowOf a) nB
      = if p = q then
          (if comp a p < 2 then 0
            else ((comp a p * (comp a p - 1) : Nat) : R) * Qm (rowOf (dec (dec a p) p)) nB)
          - 2 * ((2 * comp a p + 1 : Nat) : R) * Q0 (rowOf a) nB
          + 4 * Qp (rowOf (inc (inc a p) p)) nB
        else
          (if comp a p = 0 ∨ comp a q = 0 then 0
            else ((comp a p * comp a q : Nat) : R) * Qm (rowOf (dec (dec a p) q)) nB)
          - (if comp a p = 0 then 0 else 2 * ((comp a p : Nat) : R) * Q0 (rowOf (inc (dec a p) q)) nB)
          - (if comp a q = 0 then 0 else 2 * ((comp a q : Nat) : R) * Q0 (rowOf (dec (inc a p) q)) nB)
          + 4 * Qp (rowOf (inc (inc a p) q)) nB := by
  unfold leftSecond
  simp only [cartList_rowOf]
  obtain ⟨k, l, m⟩ := a
  interval_cases q <;> interval_cases p <;>
    simp [symIdx, comp, inc, dec, rowOf, two, four, deg]
  · -- xx
    by_cases hk : k ≤ 1
    · interval_cases k <;> simp
    · have hlt := nIdx_lt_ncart (l := l) (m := m) (L := k + l + m - 2) (by omega)
      have hrows : qmRows2 (k + l + m) = ncart (k + l + m - 2) := by
        simp only [qmRows2]; rw [if_pos (by omega)]
      have hmin : min (nIdx l m) (qmRows2 (k + l + m) - 1) = nIdx l m := by omega
      rw [hmin, if_neg hk]
  · -- xy
    rcases Nat.eq_zero_or_pos k with rfl | hk <;> rcases Nat.eq_zero_or_pos l with rfl | hl <;>
      simp [*, Nat.ne_of_gt]
  · -- yy
    by_cases hl : l ≤ 1
    · interval_cases l <;> simp
    · rw [if_pos (by omega), if_neg hl, Nat.sub_sub]
  · -- xz
    rcases Nat.eq_zero_or_pos k with rfl | hk <;> rcases Nat.eq_zero_or_pos m with rfl | hm <;>
      simp [*, Nat.ne_of_gt]
  · -- yz
    rcases Nat.eq_zero_or_pos l with rfl | hl <;> rcases Nat.eq_zero_or_pos m with rfl | hm <;>
      simp [*, Nat.ne_of_gt]
  · -- zz
    by_cases hm : m ≤ 1
    · interval_cases m <;> simp
    · rw [if_pos (by omega), if_neg hm, Nat.sub_sub]

/-- rows addressed by the formula are inside the shifted shells -/
theorem leftSecond_rows_in_range (a : Nat × Nat × Nat) (p q : Nat) (hp : p < 3) (hq : q < 3) :
    rowOf (inc (inc a p) q) < ncart (deg a + 2) ∧
    (comp a p ≠ 0 → rowOf (inc (dec a p) q) < ncart (deg a)) ∧
    (comp a p ≠ 0 → comp a q ≠ 0 → (p = q → 2 ≤ comp a p) → rowOf (dec (dec a p) q) < ncart (deg a - 2)) := by
  obtain ⟨k, l, m⟩ := a
  interval_cases p <;> interval_cases q <;>
    simp +decide only [inc, dec, comp, rowOf, deg, if_true, if_false] <;>
    refine ⟨nIdx_lt_ncart (by omega), fun h1 => nIdx_lt_ncart (by omega),
      fun h1 h2 h3 => nIdx_lt_ncart ?_⟩ <;>
    simp at h3 <;> omega

/-! ### mixed_second_derivative -/

/-- `Q_mm.dims` as the routine sees them, computed or zero-filled -/
def mmDim (L : Nat) : Nat := max 1 (L * (L + 1) / 2)

theorem mmDim_pos (L : Nat) : 0 < mmDim L := by
  unfold mmDim; omega

theorem ncart_pred_le_mmDim (L : Nat) (h : 0 < L) : ncart (L - 1) ≤ mmDim L := by
  unfold mmDim ncart
  have h1 : L - 1 + 1 = L := by omega
  have h2 : L - 1 + 2 = L + 1 := by omega
  rw [h1, h2]
  exact Nat.le_max_right _ _

theorem idxPlus_eq (a : Nat × Nat × Nat) (p : Nat) (hp : p < 3) :
    idxPlus a.2.1 a.2.2 p = rowOf (inc a p) := by
  obtain ⟨k, l, m⟩ := a
  interval_cases p <;> simp [idxPlus, rowOf, inc]

/-- when the multiplier a_p is nonzero no clamp / default is active -/
theorem idxMinus_eq (a : Nat × Nat × Nat) (p : Nat) (hp : p < 3) (h : comp a p ≠ 0) :
    idxMinus a.2.1 a.2.2 (mmDim (deg a)) p = rowOf (dec a p) := by
  obtain ⟨k, l, m⟩ := a
  interval_cases p
  · simp only [comp, if_true] at h
    have hlt := nIdx_lt_ncart (l := l) (m := m) (L := k + l + m - 1) (by omega)
    have hle := ncart_pred_le_mmDim (k + l + m) (by omega)
    simp only [idxMinus, rowOf, dec, deg, if_true]
    omega
  · simp +decide only [comp, if_true, if_false] at h
    simp +decide only [idxMinus, rowOf, dec, if_true, if_false]
    rw [if_pos (by omega)]
  · simp +decide only [comp, if_false] at h
    simp +decide only [idxMinus, rowOf, dec, if_false]
    rw [if_pos (by omega)]

/-- **nine mixed second derivatives** ∂²/∂A_p ∂B_q for every pair of components (a, b) -/
theorem mixedSecond_spec (a b : Nat × Nat × Nat) (p q : Nat) (hp : p < 3) (hq : q < 3)
    (Qmm Qmp Qpm Qpp : Blk R) :
    mixedSecond (deg a) (deg b) (mmDim (deg a)) (mmDim (deg b)) Qmm Qmp Qpm Qpp (3 * p + q) (rowOf a) (rowOf b)
      = (if comp a p = 0 ∨ comp b q = 0 then 0
          else ((comp a p * comp b q : Nat) : R) * Qmm (rowOf (dec a p)) (rowOf (dec b q)))
        - (if comp b q = 0 then 0 else 2 * ((comp b q : Nat) : R) * Qpm (rowOf (inc a p)) (rowOf (dec b q)))
        - (if comp a p = 0 then 0 else 2 * ((comp a p : Nat) : R) * Qmp (rowOf (dec a p)) (rowOf (inc b q)))
        + 4 * Qpp (rowOf (inc a p)) (rowOf (inc b q)) := by
  unfold mixedSecond
  simp only [cartList_rowOf]
  have h3 : (3 * p + q) / 3 = p := by omega
  have h4 : (3 * p + q) % 3 = q := by omega
  rw [h3, h4, idxPlus_eq a p hp, idxPlus_eq b q hq]
  by_cases ha : comp a p = 0 <;> by_cases hb : comp b q = 0 <;>
    simp [ha, hb, idxMinus_eq, hp, hq, two, four]

/-- the clamped / defaulted "minus" rows the code reads stay inside `Q_mm` -/
theorem mixed_clamps_in_range (a : Nat × Nat × Nat) (p : Nat) (hp : p < 3) :
    idxMinus a.2.1 a.2.2 (mmDim (deg a)) p < mmDim (deg a) := by
  obtain ⟨k, l, m⟩ := a
  have hpos := mmDim_pos (deg (k, l, m))
  interval_cases p
  · simp only [idxMinus, if_true]; omega
  · simp +decide only [idxMinus, if_true, if_false]
    split
    · have hlt := nIdx_lt_ncart (l := l - 1) (m := m) (L := k + l + m - 1) (by omega)
      have hle := ncart_pred_le_mmDim (k + l + m) (by omega)
      simp only [deg]; omega
    · exact hpos
  · simp +decide only [idxMinus, if_false]
    split
    · have hlt := nIdx_lt_ncart (l := l) (m := m - 1) (L := k + l + m - 1) (by omega)
      have hle := ncart_pred_le_mmDim (k + l + m) (by omega)
      simp only [deg]; omega
    · exact hpos

/-! ### compute_shell_pair_second_derivative -/

/-- layout with three distinct centres: AA = QAA, AB = QAB, BB = QBBᵀ -/
theorem pairSecond_blocks (QAA QBB QAB : Nat → Blk R) (nA nB : Nat) :
    (∀ i < 6, pairSecond true true QAA QBB QAB i nA nB = QAA i nA nB) ∧
    (∀ i < 9, pairSecond true true QAA QBB QAB (6 + i) nA nB = QAB i nA nB) ∧
    (∀ i < 6, pairSecond true true QAA QBB QAB (24 + i) nA nB = QBB i nB nA) := by
  refine ⟨?_, ?_, ?_⟩
  · intro i hi; interval_cases i <;> simp [pairSecond]
  · intro i hi; interval_cases i <;> simp [pairSecond]
  · intro i hi; interval_cases i <;> simp [pairSecond, tr]

/-- **translational sum rules** (three distinct centres), for all p, q:
AC = −(AA + AB), BC = −(BB + BA), CC = AA + AB + BA + BB -/
theorem pairSecond_sum_rules (QAA QBB QAB : Nat → Blk R) (p q : Nat) (hp : p < 3) (hq : q < 3) (nA nB : Nat) :
    let P := fun i => pairSecond true true QAA QBB QAB i nA nB
    P (15 + (3 * p + q)) = -(P (symIdx p q) + P (6 + (3 * p + q))) ∧
    P (30 + (3 * p + q)) = -(P (24 + symIdx p q) + P (6 + (3 * q + p))) ∧
    P (39 + symIdx p q) = P (symIdx p q) + P (6 + (3 * p + q)) + P (6 + (3 * q + p)) + P (24 + symIdx p q) := by
  interval_cases p <;> interval_cases q <;>
    simp [pairSecond, tr, symIdx, Gen.jaas, Gen.jbbs, List.range, List.range.loop] <;> ring

/-- the CC block is written twice for p ≠ q (once from (p,q), once from (q,p)); both writes store the
same value, so the result does not depend on the loop order -/
theorem cc_write_order_irrelevant (QAA QBB QAB : Nat → Blk R) (p q : Nat) (hp : p < 3) (hq : q < 3) (nA nB : Nat) :
    let P := fun i => pairSecond true true QAA QBB QAB i nA nB
    (-(P (30 + (3 * p + q))) - P (15 + (3 * p + q))) = -(P (30 + (3 * q + p))) - P (15 + (3 * q + p)) := by
  interval_cases p <;> interval_cases q <;>
    simp [pairSecond, Gen.jaas, Gen.jbbs] <;> ring

/-- **conventions with a shell on the ECP centre** — exactly what C04's assembly assumes
(`LowLevelConvention`): the AC, BC and CC blocks are zero, and with both shells on the ECP everything is. -/
theorem pairSecond_convention (aOff bOff : Bool) (h : aOff = false ∨ bOff = false)
    (QAA QBB QAB : Nat → Blk R) (nA nB : Nat) :
    (∀ i, (15 ≤ i ∧ i < 24) ∨ (30 ≤ i ∧ i < 45) → pairSecond aOff bOff QAA QBB QAB i nA nB = 0) ∧
    (aOff = false → bOff = false → ∀ i, pairSecond aOff bOff QAA QBB QAB i nA nB = 0) := by
  refine ⟨?_, ?_⟩
  · intro i hi
    rcases h with rfl | rfl
    · cases bOff
      · simp [pairSecond, zeroB]
      · simp only [pairSecond, Bool.false_eq_true, if_false, if_true]
        rw [if_neg (by omega), if_neg (by omega), if_neg (by omega)]; rfl
    · cases aOff
      · simp [pairSecond, zeroB]
      · simp only [pairSecond, Bool.false_eq_true, if_false, if_true]
        rw [if_neg (by omega), if_neg (by omega), if_neg (by omega)]; rfl
  · rintro rfl rfl i
    simp [pairSecond, zeroB]

/-- with shell B on the ECP centre (A elsewhere): AA = BB = QAA and AB_pq = −QAA_{pq}, i.e. moving B and
the ECP together is minus moving A; symmetrically with shell A on the ECP centre -/
theorem pairSecond_coincident (QAA QBB QAB : Nat → Blk R) (p q : Nat) (hp : p < 3) (hq : q < 3) (nA nB : Nat) :
    (pairSecond true false QAA QBB QAB (symIdx p q) nA nB = QAA (symIdx p q) nA nB ∧
     pairSecond true false QAA QBB QAB (24 + symIdx p q) nA nB = QAA (symIdx p q) nA nB ∧
     pairSecond true false QAA QBB QAB (6 + (3 * p + q)) nA nB = -(QAA (symIdx p q) nA nB)) ∧
    (pairSecond false true QAA QBB QAB (symIdx p q) nA nB = QBB (symIdx p q) nB nA ∧
     pairSecond false true QAA QBB QAB (24 + symIdx p q) nA nB = QBB (symIdx p q) nB nA ∧
     pairSecond false true QAA QBB QAB (6 + (3 * p + q)) nA nB = -(QBB (symIdx p q) nB nA)) := by
  interval_cases p <;> interval_cases q <;>
    simp [pairSecond, tr, symIdx, Gen.jaas]

end

/-! ### non-vacuity: a d-shell component, integers as blocks -/
example : leftSecond (α := Int) 2 (qmRows2 2) (fun i j => 7 + i + j) (fun i j => 10 * i + j) (fun i j => 100 * i + j) (symIdx 0 1) (rowOf (1,1,0)) 2
    = 1 * (7 + (rowOf (0,0,0) : Int) + 2) - 2 * 1 * (10 * (rowOf (0,2,0) : Int) + 2) - 2 * 1 * (10 * (rowOf (2,0,0) : Int) + 2)
      + 4 * (100 * (rowOf (2,2,0) : Int) + 2) := by decide

end Ecpint.C03
