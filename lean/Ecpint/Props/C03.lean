/- C03 — analytic second derivatives (assembly).  Statements below; model in Ecpint/Model/Deriv.lean. -/
import Ecpint.Model.Deriv
namespace Ecpint.C03
open Ecpint.Deriv

/-- `jaas[3p+q]` is the symmetric component of (p,q); `jbbs[3p+q] = 3q+p` -/
theorem jbbs_spec : ∀ p < 3, ∀ q < 3, Gen.jbbs.getD (3 * p + q) 0 = 3 * q + p := by decide
theorem jaas_spec : ∀ p < 3, ∀ q < 3, Gen.jaas.getD (3 * p + q) 0
    = (if min p q = 0 then max p q else if min p q = 1 then max p q + 2 else 5) := by decide

end Ecpint.C03
