/- C07 (part b) — the LA ≤ LB dispatch of `ECPIntegral::type2` is exactly symmetric: calling it with the two shells
   exchanged runs the SAME generated class with the SAME arguments and returns the transposed copy, for every scalar
   (no arithmetic law needed - so it holds bit for bit in doubles).  Definitions: Model/ShellPair.lean (`type2`). -/
import Ecpint.Model.ShellPair
namespace Ecpint.C07
open Ecpint Ecpint.ShellPair Ecpint.Contraction

variable {α : Type} [Flt α]

/-- the shell-pair data as the exchanged call sees it -/
def swapData (d : PairData α) : PairData α :=
  { LA := d.LB, LB := d.LA, A := d.B, B := d.A, A2 := d.B2, Am := d.Bm, B2 := d.A2, Bm := d.Am, RAB2 := d.RAB2,
    aOn := d.bOn, bOn := d.aOn }

/-- `out(nb, na, ·) = t(na, nb, ·)`: the (ncart LB × ncart LA)-shaped transposed copy of an (ncart LA × ncart LB)-shaped table -/
def transposeBlock (nA nB : Nat) (t : Array (Array α)) : Array (Array α) :=
  (Array.range (nB * nA)).map fun i => t[(i % nA) * nB + (i / nA)]!

/-- both shells off the ECP centre, LA < LB: the exchanged call (which takes the `LA > LB` branch) returns the transposed
copy of what the direct call returns — the generated class Q(LA, LB, λ) is invoked with identical arguments in both -/
theorem type2_general_swap (E : Engine α) (sw : Switches) (pwf : Nat → α → α) (maxPow : Nat)
    (classes : Nat → Nat → Nat → Option (Gen.QClass × Option (Array (UTerm α))))
    (lam : Nat) (U : Ecp α) (sA sB : Shell α) (d : PairData α) (CA CB : Nat → Nat → Nat → Nat → α) (par par' : Params α)
    (hA : d.aOn = false) (hB : d.bOn = false) (hL : d.LA < d.LB) (hcls : (classes d.LA d.LB lam).isSome) :
    type2 E sw pwf maxPow classes lam U sB sA (swapData d) CB CA par'
      = transposeBlock (ncart d.LA) (ncart d.LB) (type2 E sw pwf maxPow classes lam U sA sB d CA CB par) := by
  obtain ⟨⟨cls, terms⟩, hc⟩ := Option.isSome_iff_exists.mp hcls
  have hle : d.LA ≤ d.LB := Nat.le_of_lt hL
  have hnle : ¬ d.LB ≤ d.LA := Nat.not_le.mpr hL
  unfold type2
  simp only [swapData, hA, hB, Bool.false_and, Bool.false_eq_true, if_false, hle, hnle, if_true, hc]
  rfl

end Ecpint.C07
