/- C07 — root of the property's theorems:
   C07     swap symmetry of the contractions over any commutative semiring, transposition involutive
   C07Gen  facts about the regenerated class table (decide +kernel)
   C07b    the LA ≤ LB dispatch of type2 is exactly symmetric (any scalar, hence bit for bit in doubles)
   C07c    exchange symmetry of the primitive radial integrals with equal Bessel orders as the recurrences compute them:
           Q(l,l,k; x,y) = Q(l,l,k; y,x) with GA <-> GB for all 20 equal-order cases the library generates (and every k for l = 0, 1),
           from the integration-by-parts relations at N >= 1; a counter-model shows the N <= 0 relations alone do not suffice -/
import Ecpint.Props.C07
import Ecpint.Props.C07b
import Ecpint.Props.C07c
