/- C07 — root of the property's theorems:
   C07     swap symmetry of the contractions over any commutative semiring, transposition involutive
   C07Gen  facts about the regenerated class table (decide +kernel)
   C07b    the LA ≤ LB dispatch of type2 is exactly symmetric (any scalar, hence bit for bit in doubles) -/
import Ecpint.Props.C07
import Ecpint.Props.C07b
