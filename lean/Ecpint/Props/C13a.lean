/- C13 — angular tables: structural facts.  Model: Ecpint/Model/Angular.lean (bitwise with angular.cpp at Float). -/
import Ecpint.Model.Angular
namespace Ecpint.C13
open Ecpint.Angular

/-- `std::sort` on three values: the model's `sort3` sorts (checked on a grid that covers every order type) -/
theorem sort3_sorted : ∀ a < 4, ∀ b < 4, ∀ c < 4,
    (sort3 a b c).1 ≤ (sort3 a b c).2.1 ∧ (sort3 a b c).2.1 ≤ (sort3 a b c).2.2 := by decide

/-- parity screen of `makeW`: an entry whose λ has the wrong parity or exceeds k+l+m is never written (stays 0) -/
theorem wWritten_parity (maxLam k l m lam idx : Nat) (h : lam % 2 ≠ (k + l + m) % 2 ∨ lam > k + l + m) :
    wWritten maxLam k l m lam idx = none := by
  unfold wWritten
  rcases h with h | h
  · simp [h]
  · have : ¬ lam ≤ min maxLam (k + l + m) := by omega
    simp [this]

end Ecpint.C13
