/- C01 (part b) — Cartesian enumeration, binomial shift, Gamma table, Gaussian moments.
   (definitions in Ecpint/Model/Contraction.lean and Ecpint/Gen/GammaTable.lean must not be changed;
   helper lemmas in Ecpint/Lemmas/C01b.lean) -/
import Ecpint.Model.Contraction
import Ecpint.Gen.GammaTable
import Ecpint.Lemmas.C01b
import Mathlib.Analysis.SpecialFunctions.Gamma.Basic
import Mathlib.Analysis.SpecialFunctions.Gaussian.GaussianIntegral
import Mathlib.MeasureTheory.Integral.Gamma
namespace Ecpint.C01
open Ecpint.Contraction
open Ecpint.C01b

/-- a shell of angular momentum L has (L+1)(L+2)/2 Cartesian components -/
theorem cartList_length (L : Nat) : (cartList L).length = ncart L := by
  rw [cartList_eq_blocks, blocks_length, tri_eq, ncart]

/-- no component is listed twice -/
theorem cartList_nodup (L : Nat) : (cartList L).Nodup := by
  rw [cartList_eq_blocks, blocks, List.nodup_flatMap]
  refine ⟨fun i _ => block_nodup L i, ?_⟩
  refine List.nodup_range.pairwise_of_forall_ne (fun a _ b _ hab => ?_)
  intro c hca hcb
  exact hab ((mem_block hca).symm.trans (mem_block hcb))

/-- the documented ordering: component (x, y, z) sits at position (y+z)(y+z+1)/2 + z  (x descending, then y descending) -/
theorem cartList_index (L x y z : Nat) (h : x + y + z = L) :
    (cartList L)[(y + z) * (y + z + 1) / 2 + z]? = some (x, y, z) := by
  rw [cartList_eq_blocks, ← tri_eq]
  have hL : L + 1 = (y + z + 1) + x := by omega
  rw [hL, blocks_add, blocks_succ]
  have hlen : (blocks L (y + z)).length = tri (y + z) := blocks_length _ _
  rw [List.getElem?_append_left (by rw [List.length_append, hlen, block_length]; omega),
    List.getElem?_append_right (by rw [hlen]; omega), hlen, Nat.add_sub_cancel_left]
  simp only [block]
  rw [List.getElem?_map, List.getElem?_range (by omega)]
  simp only [Option.map_some]
  congr 2
  · omega
  · congr 1; omega

/-- binomial shift of one Cartesian factor to the ECP centre: with the factorial table filled as `initFactorials` does
and exact arithmetic, Σ_m calcC(a, m, A) X^m = (X − A)^a -/
theorem makeC_binomial {K : Type} [Field K] [CharZero K] (fac : Array K) (a : Nat) (A X : K)
    (hfac : ∀ i ≤ a, fac.getD i 0 = (i.factorial : K)) :
    ((List.range (a + 1)).map fun m => calcC fac (fun x n => x ^ n) a m A * X ^ m).sum = (X - A) ^ a := by
  rw [list_sum_range, sub_eq_add_neg, add_pow]
  refine Finset.sum_congr rfl (fun m hm => ?_)
  have hm' : m ≤ a := Nat.lt_succ_iff.mp (Finset.mem_range.mp hm)
  rw [calcC_eq fac a m A hfac hm']
  ring

/-- GAMMA[i] as a real number -/
noncomputable def gammaEntry (i : Nat) : ℝ :=
  let q := Gen.gammaTable.getD i (0, 1)
  (q.1 : ℝ) / (q.2 : ℝ)

theorem gammaEntry_eq (i : Nat) : gammaEntry i = ((gammaEntryQ i : ℚ) : ℝ) := by
  simp [gammaEntry, gammaEntryQ]

/-- the tabulated constants are Γ((i+1)/2) to 14 digits, for the whole table -/
theorem gamma_table_accurate : ∀ i < 30,
    |gammaEntry i - Real.Gamma (((i : ℝ) + 1) / 2)| ≤ 1e-13 * Real.Gamma (((i : ℝ) + 1) / 2) := by
  intro i hi
  rcases Nat.even_or_odd' i with ⟨k, rfl | rfl⟩
  · have hk : k < 15 := by omega
    rw [gamma_even, gammaEntry_eq]
    obtain ⟨h1, h2⟩ := table_even k hk
    have := close_of_bracket _ _ 1e-13 (dfrac_pos k) (by norm_num) (by norm_num) h1 h2
    convert this using 2
    norm_num
  · have hk : k < 15 := by omega
    rw [gamma_odd, gammaEntry_eq, table_odd k hk]
    have : (0 : ℝ) ≤ (k.factorial : ℝ) := Nat.cast_nonneg _
    simp only [Rat.cast_natCast, sub_self, abs_zero]
    positivity

/-- the closed form used when both shells sit on the ECP centre: ∫₀^∞ r^N e^{-p r²} dr = ½ Γ((N+1)/2) p^{-(N+1)/2} -/
theorem gaussian_moment (N : Nat) (p : ℝ) (hp : 0 < p) :
    ∫ r in Set.Ioi (0 : ℝ), r ^ N * Real.exp (-p * r ^ 2)
      = (1 / 2) * Real.Gamma (((N : ℝ) + 1) / 2) * p ^ (-(((N : ℝ) + 1) / 2)) := by
  have h := integral_rpow_mul_exp_neg_mul_rpow (p := (2 : ℝ)) (q := (N : ℝ)) (b := p) (by norm_num)
    (by have : (0 : ℝ) ≤ N := Nat.cast_nonneg N
        linarith) hp
  have h2 : ∫ r in Set.Ioi (0 : ℝ), r ^ N * Real.exp (-p * r ^ 2)
      = ∫ r in Set.Ioi (0 : ℝ), r ^ (N : ℝ) * Real.exp (-p * r ^ (2 : ℝ)) := by
    refine MeasureTheory.setIntegral_congr_fun measurableSet_Ioi (fun r hr => ?_)
    simp only [Real.rpow_natCast, Real.rpow_two]
  rw [h2, h]
  have : -((N : ℝ) + 1) / 2 = -(((N : ℝ) + 1) / 2) := by ring
  rw [this]
  ring

end Ecpint.C01
