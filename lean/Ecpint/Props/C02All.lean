/- C02 — root of the property's theorems:
   C02   the first-derivative assembly for every angular momentum over any commutative ring, and the 1-D calculus identity
   C03b  (shared with C03) `leftFirst` fed the shifted-shell blocks IS the partial derivative of the 3-D primitive for every angular
         momentum; translation invariance ⇒ ∂_C = −(∂_A + ∂_B) (`translation_sum_rule`, `translation_dC`); the ECP integral is
         translation invariant as an integral of a function of centre differences; differentiation under the integral sign -/
import Ecpint.Props.C02
import Ecpint.Props.C03b
