/- C01 — shell-pair integrals: structure of `compute_shell_pair` in the pipeline model
   (Model/ShellPair.lean, bit for bit with ecpint.cpp / qgen.cpp / radial_quad.cpp at Float). -/
import Ecpint.Model.ShellPair
namespace Ecpint.C01
open Ecpint Ecpint.ShellPair Ecpint.Contraction

/-- the stride-2 loops `for (l = p % 2; l <= n; l += 2)` visit exactly the l ≤ n of the parity of p -/
theorem parityRange_mem (n p l : Nat) : l ∈ parityRange n p ↔ l ≤ n ∧ l % 2 = p % 2 := by
  simp [parityRange, List.mem_filter, List.mem_range]
  omega

/-- the three nested binomial-shift loops visit exactly the exponent triples below the component -/
theorem subIdx_mem (c a : Nat × Nat × Nat) :
    a ∈ subIdx c ↔ a.1 ≤ c.1 ∧ a.2.1 ≤ c.2.1 ∧ a.2.2 ≤ c.2.2 := by
  obtain ⟨a1, a2, a3⟩ := a
  simp [subIdx, List.mem_flatMap, List.mem_map, List.mem_range]
  constructor
  · rintro ⟨x, hx, y, hy, z, hz, rfl, rfl, rfl⟩; omega
  · rintro ⟨h1, h2, h3⟩; exact ⟨a1, by omega, a2, by omega, a3, by omega, rfl, rfl, rfl⟩

/-- the Cartesian components of a shell of angular momentum L are exactly the exponent triples of total degree L -/
theorem cartList_mem (L : Nat) (t : Nat × Nat × Nat) : t ∈ cartList L ↔ t.1 + t.2.1 + t.2.2 = L := by
  obtain ⟨x, y, z⟩ := t
  simp [cartList, List.mem_flatMap, List.mem_map, List.mem_range]
  constructor
  · rintro ⟨i, hi, j, hj, rfl, rfl, rfl⟩; omega
  · intro h; exact ⟨L - x, by omega, (L - (L - (L - x))) - y, by omega, by omega, by omega, by omega⟩

end Ecpint.C01
