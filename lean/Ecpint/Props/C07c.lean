/- C07c — exchange symmetry (i, x) ↔ (j, y) of the recurrence-defined radial integrals `Q` with equal Bessel orders.

   The recurrences (`Ecpint/Model/RadialRec.lean`) lower the first order with eq 28 and the second with eqs 29/33, so
   `Q p x y fam i i k` and `Q p y x (swapFam fam) i i k` are different expressions in the base integrals
   (F and G^B on one side, F and G^A on the other).  Findings:

   * Stage 1: the four relations `Reductions` (N ≤ 0) are closed under the exchange
     x ↔ y, F ↦ F, H ↦ H, G^A ↔ G^B (`reductions_swap`); so are their N ≥ 1 counterparts (`reductionsUp_swap`).
   * Stage 2: the exchange symmetry of `Q i i k` is NOT a consequence of `Reductions` (`Q_exchange_1_1_2_not_from_Reductions`:
     an explicit family over ℚ satisfying `Reductions` in both orientations with `Q 1 1 2` not symmetric) — `Reductions`
     only speaks about N ≤ 0 and leaves G^B_3, G^A_3, … free.  What is needed is the SAME four integration-by-parts
     relations at N ≥ 1, in the multiplied-out form `(N − 1)·T_N = 2p·T_{N+2} − …` (at N = 1 the factor vanishes and the
     relation is a constraint between T_3 and the level-2 integrals): `ReductionsUp`.  Under `ReductionsUp` alone (the
     N ≤ 0 relations are not used at all, nor is p ≠ 0) every generated equal-order case is symmetric:
     `Q_exchange_l_l_k` for (l,l,k) ∈ {(1,1,2..10), (2,2,2..8), (3,3,2..6), (4,4,2..4)}, and (0,0,k) for every k;
     `Q_exchange_generated` collects them over the equal-order labels of `Gen.radialCaseKeys`.  For l = 1 the symmetry holds
     for every k ≥ 2 (`Q_exchange_1_1`), with the manifestly symmetric closed form `Q_1_1_closed`.
     Each proof is a `linear_combination` of instances of `ReductionsUp` with explicit coefficients (found by exact
     elimination) plus multiples of `x·x⁻¹ = 1`, `y·y⁻¹ = 1`, checked here by `ring`. -/
import Ecpint.Lemmas.RadialRec
import Ecpint.Gen.RadialCases
import Mathlib.Tactic.Ring
import Mathlib.Tactic.FieldSimp
import Mathlib.Tactic.NormNum
import Mathlib.Tactic.LinearCombination
import Mathlib.Algebra.Field.Basic
import Mathlib.Algebra.Order.Field.Rat
namespace Ecpint.C07c
open Ecpint.RadialRec
set_option linter.unusedVariables false
set_option linter.unusedSimpArgs false
set_option linter.unusedSectionVars false

section
variable {K : Type} [Field K]

/-- the families seen from the other shell: sinh·sinh and cosh·cosh stay, the two mixed families are exchanged -/
def swapFam (fam : Fam K) : Fam K := { F := fam.F, H := fam.H, GA := fam.GB, GB := fam.GA }

theorem swapFam_swapFam (fam : Fam K) : swapFam (swapFam fam) = fam := rfl

/-- Stage 1: the four reduction relations are closed under the exchange of the two shells -/
theorem reductions_swap {p x y : K} {fam : Fam K} (h : Reductions p x y fam) :
    Reductions p y x (swapFam fam) := by
  refine ⟨fun N hN => ?_, fun N hN => ?_, fun N hN => ?_, fun N hN => ?_⟩
  · simp only [swapFam]; rw [h.hF N hN]; ring
  · simp only [swapFam]; rw [h.hGA N hN]; ring
  · simp only [swapFam]; rw [h.hGB N hN]; ring
  · simp only [swapFam]; rw [h.hH N hN]; ring

theorem reductions_swap_iff {p x y : K} {fam : Fam K} :
    Reductions p y x (swapFam fam) ↔ Reductions p x y fam :=
  ⟨fun h => by simpa [swapFam_swapFam] using reductions_swap h, reductions_swap⟩

/-- the same four integration-by-parts relations at N ≥ 1, multiplied out (at N = 1 the left side is 0) -/
structure ReductionsUp (p x y : K) (fam : Fam K) : Prop where
  hF : ∀ N : Int, 1 ≤ N → ((N : K) - 1) * fam.F N = 2 * p * fam.F (N + 2) - 2 * y * fam.GB (N + 1) - 2 * x * fam.GA (N + 1)
  hGB : ∀ N : Int, 1 ≤ N → ((N : K) - 1) * fam.GB N = 2 * p * fam.GB (N + 2) - 2 * y * fam.F (N + 1) - 2 * x * fam.H (N + 1)
  hGA : ∀ N : Int, 1 ≤ N → ((N : K) - 1) * fam.GA N = 2 * p * fam.GA (N + 2) - 2 * y * fam.H (N + 1) - 2 * x * fam.F (N + 1)
  hH : ∀ N : Int, 1 ≤ N → ((N : K) - 1) * fam.H N = 2 * p * fam.H (N + 2) - 2 * y * fam.GA (N + 1) - 2 * x * fam.GB (N + 1)

theorem reductionsUp_swap {p x y : K} {fam : Fam K} (h : ReductionsUp p x y fam) :
    ReductionsUp p y x (swapFam fam) := by
  refine ⟨fun N hN => ?_, fun N hN => ?_, fun N hN => ?_, fun N hN => ?_⟩
  · simp only [swapFam]; rw [h.hF N hN]; ring
  · simp only [swapFam]; rw [h.hGA N hN]; ring
  · simp only [swapFam]; rw [h.hGB N hN]; ring
  · simp only [swapFam]; rw [h.hH N hN]; ring

/-- `Reductions` in the multiplied-out form (so `Reductions` + `ReductionsUp` = the one relation at every integer N) -/
theorem reductions_mul [CharZero K] {p x y : K} {fam : Fam K} (h : Reductions p x y fam) (N : Int) (hN : N ≤ 0) :
    ((N : K) - 1) * fam.F N = 2 * p * fam.F (N + 2) - 2 * y * fam.GB (N + 1) - 2 * x * fam.GA (N + 1) ∧
    ((N : K) - 1) * fam.GB N = 2 * p * fam.GB (N + 2) - 2 * y * fam.F (N + 1) - 2 * x * fam.H (N + 1) ∧
    ((N : K) - 1) * fam.GA N = 2 * p * fam.GA (N + 2) - 2 * y * fam.H (N + 1) - 2 * x * fam.F (N + 1) ∧
    ((N : K) - 1) * fam.H N = 2 * p * fam.H (N + 2) - 2 * y * fam.GA (N + 1) - 2 * x * fam.GB (N + 1) := by
  have hne : (N : K) - 1 ≠ 0 := by
    intro h0
    have h1 : (N : K) = ((1 : Int) : K) := by rw [Int.cast_one]; exact sub_eq_zero.mp h0
    have := Int.cast_injective h1
    omega
  refine ⟨?_, ?_, ?_, ?_⟩
  · rw [h.hF N hN]; field_simp
  · rw [h.hGB N hN]; field_simp
  · rw [h.hGA N hN]; field_simp
  · rw [h.hH N hN]; field_simp

end

/-! ### `Reductions` alone does not give the exchange symmetry -/

/-- every base integral 0 except G^B_3 = 1 -/
def cmFam : Fam ℚ := { F := fun _ => 0, GB := fun N => if N = 3 then 1 else 0, GA := fun _ => 0, H := fun _ => 0 }

theorem cmFam_reductions (p x y : ℚ) : Reductions p x y cmFam := by
  refine ⟨fun N hN => ?_, fun N hN => ?_, fun N hN => ?_, fun N hN => ?_⟩
  · have h1 : ¬ (N + 1 = 3) := by omega
    simp [cmFam, h1]
  · have h1 : ¬ (N = 3) := by omega
    have h2 : ¬ (N + 2 = 3) := by omega
    simp [cmFam, h1, h2]
  · simp [cmFam]
  · have h1 : ¬ (N + 1 = 3) := by omega
    simp [cmFam, h1]

/-- Stage 2, negative part: a family over ℚ satisfying `Reductions` in both orientations whose `Q 1 1 2` is not
exchange symmetric (`Q 1 1 2 = p/x·G^B_3 − (y/x + p/(2xy))·F_2`, and `Reductions` does not constrain G^B_3) -/
theorem Q_exchange_1_1_2_not_from_Reductions :
    ∃ fam : Fam ℚ, Reductions 1 1 1 fam ∧ Reductions 1 1 1 (swapFam fam) ∧
      Q 1 1 1 fam 1 1 2 ≠ Q 1 1 1 (swapFam fam) 1 1 2 := by
  refine ⟨cmFam, cmFam_reductions 1 1 1, reductions_swap (cmFam_reductions 1 1 1), ?_⟩
  norm_num [Q, recI, recJ, leaf, swapFam, cmFam]

/-! ### the symmetry from the N ≥ 1 relations -/
section
variable {K : Type} [Field K] [CharZero K]

theorem Q_exchange_0_0 (p x y : K) (fam : Fam K) (k : Int) :
    Q p x y fam 0 0 k = Q p y x (swapFam fam) 0 0 k := by
  simp [Q, recI, recJ, leaf, swapFam]

/-- order 1, every k ≥ 2: `Q 1 1 k = H_k − ((2 − k)·F_{k−2} + 2p·F_k)/(4xy)`, visibly symmetric under the exchange -/
theorem Q_1_1_closed (p x y : K) (hx : x ≠ 0) (hy : y ≠ 0) (fam : Fam K) (h : ReductionsUp p x y fam)
    (k : Int) (hk : 2 ≤ k) :
    Q p x y fam 1 1 k = fam.H k - ((2 - (k : K)) * fam.F (k - 2) + 2 * p * fam.F k) / (4 * x * y) := by
  have hxi : x * x⁻¹ = 1 := mul_inv_cancel₀ hx
  have hyi : y * y⁻¹ = 1 := mul_inv_cancel₀ hy
  have e1 := h.hGB (k - 1) (by omega)
  have a1 : k - 1 + 2 = k + 1 := by ring
  have a2 : k - 1 + 1 = k := by ring
  have a3 : k - 1 - 1 = k - 2 := by ring
  rw [a1, a2] at e1
  push_cast at e1
  have b1 : (k - 1 - (k - 1 - 1)) % 2 = 1 := by omega
  have b2 : (k - 1 - 1 - (k - 1 - 1)) % 2 = 0 := by omega
  have b3 : (k - (k - 1 - 1)) % 2 = 0 := by omega
  have b4 : (k + 1 - (k - 1 - 1)) % 2 = 1 := by omega
  simp [Q, recI, recJ, leaf, b1, b2, b3, b4, a3]
  linear_combination ((-1/2 : K) * x⁻¹) * e1 + (fam.H k) * hxi

theorem Q_exchange_1_1 (p x y : K) (hx : x ≠ 0) (hy : y ≠ 0) (fam : Fam K) (h : ReductionsUp p x y fam)
    (k : Int) (hk : 2 ≤ k) :
    Q p x y fam 1 1 k = Q p y x (swapFam fam) 1 1 k := by
  rw [Q_1_1_closed p x y hx hy fam h k hk, Q_1_1_closed p y x hy hx (swapFam fam) (reductionsUp_swap h) k hk]
  simp only [swapFam]
  ring

theorem Q_exchange_1_1_2 (p x y : K) (hx : x ≠ 0) (hy : y ≠ 0) (fam : Fam K) (h : ReductionsUp p x y fam) :
    Q p x y fam 1 1 2 = Q p y x (swapFam fam) 1 1 2 := by
  have hxi : x * x⁻¹ = 1 := mul_inv_cancel₀ hx
  have hyi : y * y⁻¹ = 1 := mul_inv_cancel₀ hy
  have e0 := h.hGA 1 (by norm_num)
  have e1 := h.hGB 1 (by norm_num)
  simp only [Int.cast_ofNat, Int.cast_one, Int.reduceAdd] at e0 e1
  norm_num [Q, recI, recJ, leaf, swapFam]
  linear_combination
    ((1/2 : K) * y⁻¹) * e0
    + ((-1/2 : K) * x⁻¹) * e1
    + (((1 : K)) * fam.H 2) * hxi
    + (((-1 : K)) * fam.H 2) * hyi

theorem Q_exchange_1_1_4 (p x y : K) (hx : x ≠ 0) (hy : y ≠ 0) (fam : Fam K) (h : ReductionsUp p x y fam) :
    Q p x y fam 1 1 4 = Q p y x (swapFam fam) 1 1 4 := by
  have hxi : x * x⁻¹ = 1 := mul_inv_cancel₀ hx
  have hyi : y * y⁻¹ = 1 := mul_inv_cancel₀ hy
  have e0 := h.hGA 3 (by norm_num)
  have e1 := h.hGB 3 (by norm_num)
  simp only [Int.cast_ofNat, Int.cast_one, Int.reduceAdd] at e0 e1
  norm_num [Q, recI, recJ, leaf, swapFam]
  linear_combination
    ((1/2 : K) * y⁻¹) * e0
    + ((-1/2 : K) * x⁻¹) * e1
    + (((1 : K)) * fam.H 4) * hxi
    + (((-1 : K)) * fam.H 4) * hyi

theorem Q_exchange_1_1_6 (p x y : K) (hx : x ≠ 0) (hy : y ≠ 0) (fam : Fam K) (h : ReductionsUp p x y fam) :
    Q p x y fam 1 1 6 = Q p y x (swapFam fam) 1 1 6 := by
  have hxi : x * x⁻¹ = 1 := mul_inv_cancel₀ hx
  have hyi : y * y⁻¹ = 1 := mul_inv_cancel₀ hy
  have e0 := h.hGA 5 (by norm_num)
  have e1 := h.hGB 5 (by norm_num)
  simp only [Int.cast_ofNat, Int.cast_one, Int.reduceAdd] at e0 e1
  norm_num [Q, recI, recJ, leaf, swapFam]
  linear_combination
    ((1/2 : K) * y⁻¹) * e0
    + ((-1/2 : K) * x⁻¹) * e1
    + (((1 : K)) * fam.H 6) * hxi
    + (((-1 : K)) * fam.H 6) * hyi

theorem Q_exchange_1_1_8 (p x y : K) (hx : x ≠ 0) (hy : y ≠ 0) (fam : Fam K) (h : ReductionsUp p x y fam) :
    Q p x y fam 1 1 8 = Q p y x (swapFam fam) 1 1 8 := by
  have hxi : x * x⁻¹ = 1 := mul_inv_cancel₀ hx
  have hyi : y * y⁻¹ = 1 := mul_inv_cancel₀ hy
  have e0 := h.hGA 7 (by norm_num)
  have e1 := h.hGB 7 (by norm_num)
  simp only [Int.cast_ofNat, Int.cast_one, Int.reduceAdd] at e0 e1
  norm_num [Q, recI, recJ, leaf, swapFam]
  linear_combination
    ((1/2 : K) * y⁻¹) * e0
    + ((-1/2 : K) * x⁻¹) * e1
    + (((1 : K)) * fam.H 8) * hxi
    + (((-1 : K)) * fam.H 8) * hyi

theorem Q_exchange_1_1_10 (p x y : K) (hx : x ≠ 0) (hy : y ≠ 0) (fam : Fam K) (h : ReductionsUp p x y fam) :
    Q p x y fam 1 1 10 = Q p y x (swapFam fam) 1 1 10 := by
  have hxi : x * x⁻¹ = 1 := mul_inv_cancel₀ hx
  have hyi : y * y⁻¹ = 1 := mul_inv_cancel₀ hy
  have e0 := h.hGA 9 (by norm_num)
  have e1 := h.hGB 9 (by norm_num)
  simp only [Int.cast_ofNat, Int.cast_one, Int.reduceAdd] at e0 e1
  norm_num [Q, recI, recJ, leaf, swapFam]
  linear_combination
    ((1/2 : K) * y⁻¹) * e0
    + ((-1/2 : K) * x⁻¹) * e1
    + (((1 : K)) * fam.H 10) * hxi
    + (((-1 : K)) * fam.H 10) * hyi

theorem Q_exchange_2_2_2 (p x y : K) (hx : x ≠ 0) (hy : y ≠ 0) (fam : Fam K) (h : ReductionsUp p x y fam) :
    Q p x y fam 2 2 2 = Q p y x (swapFam fam) 2 2 2 := by
  have hxi : x * x⁻¹ = 1 := mul_inv_cancel₀ hx
  have hyi : y * y⁻¹ = 1 := mul_inv_cancel₀ hy
  have e0 := h.hGA 1 (by norm_num)
  have e1 := h.hGB 1 (by norm_num)
  have e2 := h.hF 2 (by norm_num)
  simp only [Int.cast_ofNat, Int.cast_one, Int.reduceAdd] at e0 e1 e2
  norm_num [Q, recI, recJ, leaf, swapFam]
  linear_combination
    ((-1/2 : K) * x⁻¹ + (-1/2 : K) * x * y⁻¹^2 + (-3/4 : K) * p * x⁻¹ * y⁻¹^2) * e0
    + ((1/2 : K) * y⁻¹ + (1/2 : K) * y * x⁻¹^2 + (3/4 : K) * p * x⁻¹^2 * y⁻¹) * e1
    + ((1/2 : K) * p * y⁻¹^2 + (-1/2 : K) * p * x⁻¹^2) * e2
    + (((1 : K) + (1/2 : K) * p * y⁻¹^2) * fam.F 2 + ((-1 : K) * y * x⁻¹ + (-3/2 : K) * p * x⁻¹ * y⁻¹) * fam.H 2 + ((1 : K) * p * x⁻¹) * fam.GA 3) * hxi
    + (((-1 : K) + (-1/2 : K) * p * x⁻¹^2) * fam.F 2 + ((1 : K) * x * y⁻¹ + (3/2 : K) * p * x⁻¹ * y⁻¹) * fam.H 2 + ((-1 : K) * p * y⁻¹) * fam.GB 3) * hyi

theorem Q_exchange_2_2_4 (p x y : K) (hx : x ≠ 0) (hy : y ≠ 0) (fam : Fam K) (h : ReductionsUp p x y fam) :
    Q p x y fam 2 2 4 = Q p y x (swapFam fam) 2 2 4 := by
  have hxi : x * x⁻¹ = 1 := mul_inv_cancel₀ hx
  have hyi : y * y⁻¹ = 1 := mul_inv_cancel₀ hy
  have e0 := h.hGA 1 (by norm_num)
  have e1 := h.hGB 1 (by norm_num)
  have e2 := h.hF 2 (by norm_num)
  have e3 := h.hGA 3 (by norm_num)
  have e4 := h.hGB 3 (by norm_num)
  have e5 := h.hF 4 (by norm_num)
  simp only [Int.cast_ofNat, Int.cast_one, Int.reduceAdd] at e0 e1 e2 e3 e4 e5
  norm_num [Q, recI, recJ, leaf, swapFam]
  linear_combination
    ((3/4 : K) * x⁻¹ * y⁻¹^2) * e0
    + ((-3/4 : K) * x⁻¹^2 * y⁻¹) * e1
    + ((-1/2 : K) * y⁻¹^2 + (1/2 : K) * x⁻¹^2) * e2
    + ((-1/2 : K) * x⁻¹ + (-1/2 : K) * x * y⁻¹^2 + (-3/4 : K) * p * x⁻¹ * y⁻¹^2) * e3
    + ((1/2 : K) * y⁻¹ + (1/2 : K) * y * x⁻¹^2 + (3/4 : K) * p * x⁻¹^2 * y⁻¹) * e4
    + ((1/2 : K) * p * y⁻¹^2 + (-1/2 : K) * p * x⁻¹^2) * e5
    + (((-1/2 : K) * y⁻¹^2) * fam.F 2 + ((3/2 : K) * x⁻¹ * y⁻¹) * fam.H 2 + ((-1 : K) * x⁻¹) * fam.GA 3 + ((1 : K) + (1/2 : K) * p * y⁻¹^2) * fam.F 4 + ((-1 : K) * y * x⁻¹ + (-3/2 : K) * p * x⁻¹ * y⁻¹) * fam.H 4 + ((1 : K) * p * x⁻¹) * fam.GA 5) * hxi
    + (((1/2 : K) * x⁻¹^2) * fam.F 2 + ((-3/2 : K) * x⁻¹ * y⁻¹) * fam.H 2 + ((1 : K) * y⁻¹) * fam.GB 3 + ((-1 : K) + (-1/2 : K) * p * x⁻¹^2) * fam.F 4 + ((1 : K) * x * y⁻¹ + (3/2 : K) * p * x⁻¹ * y⁻¹) * fam.H 4 + ((-1 : K) * p * y⁻¹) * fam.GB 5) * hyi

theorem Q_exchange_2_2_6 (p x y : K) (hx : x ≠ 0) (hy : y ≠ 0) (fam : Fam K) (h : ReductionsUp p x y fam) :
    Q p x y fam 2 2 6 = Q p y x (swapFam fam) 2 2 6 := by
  have hxi : x * x⁻¹ = 1 := mul_inv_cancel₀ hx
  have hyi : y * y⁻¹ = 1 := mul_inv_cancel₀ hy
  have e0 := h.hGA 3 (by norm_num)
  have e1 := h.hGB 3 (by norm_num)
  have e2 := h.hF 4 (by norm_num)
  have e3 := h.hGA 5 (by norm_num)
  have e4 := h.hGB 5 (by norm_num)
  have e5 := h.hF 6 (by norm_num)
  simp only [Int.cast_ofNat, Int.cast_one, Int.reduceAdd] at e0 e1 e2 e3 e4 e5
  norm_num [Q, recI, recJ, leaf, swapFam]
  linear_combination
    ((3/2 : K) * x⁻¹ * y⁻¹^2) * e0
    + ((-3/2 : K) * x⁻¹^2 * y⁻¹) * e1
    + ((-1 : K) * y⁻¹^2 + (1 : K) * x⁻¹^2) * e2
    + ((-1/2 : K) * x⁻¹ + (-1/2 : K) * x * y⁻¹^2 + (-3/4 : K) * p * x⁻¹ * y⁻¹^2) * e3
    + ((1/2 : K) * y⁻¹ + (1/2 : K) * y * x⁻¹^2 + (3/4 : K) * p * x⁻¹^2 * y⁻¹) * e4
    + ((1/2 : K) * p * y⁻¹^2 + (-1/2 : K) * p * x⁻¹^2) * e5
    + (((-1 : K) * y⁻¹^2) * fam.F 4 + ((3 : K) * x⁻¹ * y⁻¹) * fam.H 4 + ((-2 : K) * x⁻¹) * fam.GA 5 + ((1 : K) + (1/2 : K) * p * y⁻¹^2) * fam.F 6 + ((-1 : K) * y * x⁻¹ + (-3/2 : K) * p * x⁻¹ * y⁻¹) * fam.H 6 + ((1 : K) * p * x⁻¹) * fam.GA 7) * hxi
    + (((1 : K) * x⁻¹^2) * fam.F 4 + ((-3 : K) * x⁻¹ * y⁻¹) * fam.H 4 + ((2 : K) * y⁻¹) * fam.GB 5 + ((-1 : K) + (-1/2 : K) * p * x⁻¹^2) * fam.F 6 + ((1 : K) * x * y⁻¹ + (3/2 : K) * p * x⁻¹ * y⁻¹) * fam.H 6 + ((-1 : K) * p * y⁻¹) * fam.GB 7) * hyi

theorem Q_exchange_2_2_8 (p x y : K) (hx : x ≠ 0) (hy : y ≠ 0) (fam : Fam K) (h : ReductionsUp p x y fam) :
    Q p x y fam 2 2 8 = Q p y x (swapFam fam) 2 2 8 := by
  have hxi : x * x⁻¹ = 1 := mul_inv_cancel₀ hx
  have hyi : y * y⁻¹ = 1 := mul_inv_cancel₀ hy
  have e0 := h.hGA 5 (by norm_num)
  have e1 := h.hGB 5 (by norm_num)
  have e2 := h.hF 6 (by norm_num)
  have e3 := h.hGA 7 (by norm_num)
  have e4 := h.hGB 7 (by norm_num)
  have e5 := h.hF 8 (by norm_num)
  simp only [Int.cast_ofNat, Int.cast_one, Int.reduceAdd] at e0 e1 e2 e3 e4 e5
  norm_num [Q, recI, recJ, leaf, swapFam]
  linear_combination
    ((9/4 : K) * x⁻¹ * y⁻¹^2) * e0
    + ((-9/4 : K) * x⁻¹^2 * y⁻¹) * e1
    + ((-3/2 : K) * y⁻¹^2 + (3/2 : K) * x⁻¹^2) * e2
    + ((-1/2 : K) * x⁻¹ + (-1/2 : K) * x * y⁻¹^2 + (-3/4 : K) * p * x⁻¹ * y⁻¹^2) * e3
    + ((1/2 : K) * y⁻¹ + (1/2 : K) * y * x⁻¹^2 + (3/4 : K) * p * x⁻¹^2 * y⁻¹) * e4
    + ((1/2 : K) * p * y⁻¹^2 + (-1/2 : K) * p * x⁻¹^2) * e5
    + (((-3/2 : K) * y⁻¹^2) * fam.F 6 + ((9/2 : K) * x⁻¹ * y⁻¹) * fam.H 6 + ((-3 : K) * x⁻¹) * fam.GA 7 + ((1 : K) + (1/2 : K) * p * y⁻¹^2) * fam.F 8 + ((-1 : K) * y * x⁻¹ + (-3/2 : K) * p * x⁻¹ * y⁻¹) * fam.H 8 + ((1 : K) * p * x⁻¹) * fam.GA 9) * hxi
    + (((3/2 : K) * x⁻¹^2) * fam.F 6 + ((-9/2 : K) * x⁻¹ * y⁻¹) * fam.H 6 + ((3 : K) * y⁻¹) * fam.GB 7 + ((-1 : K) + (-1/2 : K) * p * x⁻¹^2) * fam.F 8 + ((1 : K) * x * y⁻¹ + (3/2 : K) * p * x⁻¹ * y⁻¹) * fam.H 8 + ((-1 : K) * p * y⁻¹) * fam.GB 9) * hyi

theorem Q_exchange_3_3_2 (p x y : K) (hx : x ≠ 0) (hy : y ≠ 0) (fam : Fam K) (h : ReductionsUp p x y fam) :
    Q p x y fam 3 3 2 = Q p y x (swapFam fam) 3 3 2 := by
  have hxi : x * x⁻¹ = 1 := mul_inv_cancel₀ hx
  have hyi : y * y⁻¹ = 1 := mul_inv_cancel₀ hy
  have e0 := h.hGA 1 (by norm_num)
  have e1 := h.hGB 1 (by norm_num)
  have e2 := h.hF 2 (by norm_num)
  have e3 := h.hH 2 (by norm_num)
  have e4 := h.hGA 3 (by norm_num)
  have e5 := h.hGB 3 (by norm_num)
  simp only [Int.cast_ofNat, Int.cast_one, Int.reduceAdd] at e0 e1 e2 e3 e4 e5
  norm_num [Q, recI, recJ, leaf, swapFam]
  linear_combination
    ((1/2 : K) * y⁻¹ + (1/2 : K) * y * x⁻¹^2 + (1/2 : K) * x^2 * y⁻¹^3 + (5/4 : K) * p * y⁻¹^3 + (3/2 : K) * p * x⁻¹^2 * y⁻¹ + (15/8 : K) * p^2 * x⁻¹^2 * y⁻¹^3) * e0
    + ((-1/2 : K) * x⁻¹ + (-1/2 : K) * y^2 * x⁻¹^3 + (-1/2 : K) * x * y⁻¹^2 + (-3/2 : K) * p * x⁻¹ * y⁻¹^2 + (-5/4 : K) * p * x⁻¹^3 + (-15/8 : K) * p^2 * x⁻¹^3 * y⁻¹^2) * e1
    + ((1 : K) * p * y * x⁻¹^3 + (-1 : K) * p * x * y⁻¹^3 + (-3/2 : K) * p^2 * x⁻¹ * y⁻¹^3 + (3/2 : K) * p^2 * x⁻¹^3 * y⁻¹) * e2
    + ((1/2 : K) * p * y⁻¹^2 + (-1/2 : K) * p * x⁻¹^2) * e3
    + ((1/2 : K) * p^2 * y⁻¹^3) * e4
    + ((-1/2 : K) * p^2 * x⁻¹^3) * e5
    + (((-1 : K) * y * x⁻¹ + (-3 : K) * p * x⁻¹ * y⁻¹ + (3/2 : K) * p * x * y⁻¹^3 + (-3/2 : K) * p^2 * x⁻¹ * y⁻¹^3) * fam.F 2 + ((1 : K) + (1 : K) * y^2 * x⁻¹^2 + (3 : K) * p * y⁻¹^2 + (5/2 : K) * p * x⁻¹^2 + (15/4 : K) * p^2 * x⁻¹^2 * y⁻¹^2) * fam.H 2 + ((-2 : K) * p * y * x⁻¹^2 + (-3/2 : K) * p^2 * y⁻¹^3 + (-3 : K) * p^2 * x⁻¹^2 * y⁻¹) * fam.GA 3 + ((1 : K) * p * x⁻¹) * fam.GB 3 + ((1 : K) * p^2 * x⁻¹^2) * fam.H 4) * hxi
    + (((1 : K) * x * y⁻¹ + (3 : K) * p * x⁻¹ * y⁻¹ + (-3/2 : K) * p * y * x⁻¹^3 + (3/2 : K) * p^2 * x⁻¹^3 * y⁻¹) * fam.F 2 + ((-1 : K) + (-1 : K) * x^2 * y⁻¹^2 + (-5/2 : K) * p * y⁻¹^2 + (-3 : K) * p * x⁻¹^2 + (-15/4 : K) * p^2 * x⁻¹^2 * y⁻¹^2) * fam.H 2 + ((-1 : K) * p * y⁻¹) * fam.GA 3 + ((2 : K) * p * x * y⁻¹^2 + (3 : K) * p^2 * x⁻¹ * y⁻¹^2 + (3/2 : K) * p^2 * x⁻¹^3) * fam.GB 3 + ((-1 : K) * p^2 * y⁻¹^2) * fam.H 4) * hyi

theorem Q_exchange_3_3_4 (p x y : K) (hx : x ≠ 0) (hy : y ≠ 0) (fam : Fam K) (h : ReductionsUp p x y fam) :
    Q p x y fam 3 3 4 = Q p y x (swapFam fam) 3 3 4 := by
  have hxi : x * x⁻¹ = 1 := mul_inv_cancel₀ hx
  have hyi : y * y⁻¹ = 1 := mul_inv_cancel₀ hy
  have e0 := h.hGA 1 (by norm_num)
  have e1 := h.hGB 1 (by norm_num)
  have e2 := h.hF 2 (by norm_num)
  have e3 := h.hH 2 (by norm_num)
  have e4 := h.hGA 3 (by norm_num)
  have e5 := h.hGB 3 (by norm_num)
  have e6 := h.hF 4 (by norm_num)
  have e7 := h.hH 4 (by norm_num)
  have e8 := h.hGA 5 (by norm_num)
  have e9 := h.hGB 5 (by norm_num)
  simp only [Int.cast_ofNat, Int.cast_one, Int.reduceAdd] at e0 e1 e2 e3 e4 e5 e6 e7 e8 e9
  norm_num [Q, recI, recJ, leaf, swapFam]
  linear_combination
    ((-5/4 : K) * y⁻¹^3 + (-3/2 : K) * x⁻¹^2 * y⁻¹ + (-15/4 : K) * p * x⁻¹^2 * y⁻¹^3) * e0
    + ((3/2 : K) * x⁻¹ * y⁻¹^2 + (5/4 : K) * x⁻¹^3 + (15/4 : K) * p * x⁻¹^3 * y⁻¹^2) * e1
    + ((-1 : K) * y * x⁻¹^3 + (1 : K) * x * y⁻¹^3 + (3 : K) * p * x⁻¹ * y⁻¹^3 + (-3 : K) * p * x⁻¹^3 * y⁻¹) * e2
    + ((-1/2 : K) * y⁻¹^2 + (1/2 : K) * x⁻¹^2) * e3
    + ((1/2 : K) * y⁻¹ + (1/2 : K) * y * x⁻¹^2 + (1/2 : K) * x^2 * y⁻¹^3 + (1/4 : K) * p * y⁻¹^3 + (3/2 : K) * p * x⁻¹^2 * y⁻¹ + (15/8 : K) * p^2 * x⁻¹^2 * y⁻¹^3) * e4
    + ((-1/2 : K) * x⁻¹ + (-1/2 : K) * y^2 * x⁻¹^3 + (-1/2 : K) * x * y⁻¹^2 + (-3/2 : K) * p * x⁻¹ * y⁻¹^2 + (-1/4 : K) * p * x⁻¹^3 + (-15/8 : K) * p^2 * x⁻¹^3 * y⁻¹^2) * e5
    + ((1 : K) * p * y * x⁻¹^3 + (-1 : K) * p * x * y⁻¹^3 + (-3/2 : K) * p^2 * x⁻¹ * y⁻¹^3 + (3/2 : K) * p^2 * x⁻¹^3 * y⁻¹) * e6
    + ((1/2 : K) * p * y⁻¹^2 + (-1/2 : K) * p * x⁻¹^2) * e7
    + ((1/2 : K) * p^2 * y⁻¹^3) * e8
    + ((-1/2 : K) * p^2 * x⁻¹^3) * e9
    + (((3 : K) * x⁻¹ * y⁻¹ + (-3/2 : K) * x * y⁻¹^3 + (3 : K) * p * x⁻¹ * y⁻¹^3) * fam.F 2 + ((-3 : K) * y⁻¹^2 + (-5/2 : K) * x⁻¹^2 + (-15/2 : K) * p * x⁻¹^2 * y⁻¹^2) * fam.H 2 + ((2 : K) * y * x⁻¹^2 + (3 : K) * p * y⁻¹^3 + (6 : K) * p * x⁻¹^2 * y⁻¹) * fam.GA 3 + ((-1 : K) * x⁻¹) * fam.GB 3 + ((-1 : K) * y * x⁻¹ + (-3 : K) * p * x⁻¹ * y⁻¹ + (3/2 : K) * p * x * y⁻¹^3 + (-3/2 : K) * p^2 * x⁻¹ * y⁻¹^3) * fam.F 4 + ((1 : K) + (1 : K) * y^2 * x⁻¹^2 + (3 : K) * p * y⁻¹^2 + (1/2 : K) * p * x⁻¹^2 + (15/4 : K) * p^2 * x⁻¹^2 * y⁻¹^2) * fam.H 4 + ((-2 : K) * p * y * x⁻¹^2 + (-3/2 : K) * p^2 * y⁻¹^3 + (-3 : K) * p^2 * x⁻¹^2 * y⁻¹) * fam.GA 5 + ((1 : K) * p * x⁻¹) * fam.GB 5 + ((1 : K) * p^2 * x⁻¹^2) * fam.H 6) * hxi
    + (((-3 : K) * x⁻¹ * y⁻¹ + (3/2 : K) * y * x⁻¹^3 + (-3 : K) * p * x⁻¹^3 * y⁻¹) * fam.F 2 + ((5/2 : K) * y⁻¹^2 + (3 : K) * x⁻¹^2 + (15/2 : K) * p * x⁻¹^2 * y⁻¹^2) * fam.H 2 + ((1 : K) * y⁻¹) * fam.GA 3 + ((-2 : K) * x * y⁻¹^2 + (-6 : K) * p * x⁻¹ * y⁻¹^2 + (-3 : K) * p * x⁻¹^3) * fam.GB 3 + ((1 : K) * x * y⁻¹ + (3 : K) * p * x⁻¹ * y⁻¹ + (-3/2 : K) * p * y * x⁻¹^3 + (3/2 : K) * p^2 * x⁻¹^3 * y⁻¹) * fam.F 4 + ((-1 : K) + (-1 : K) * x^2 * y⁻¹^2 + (-1/2 : K) * p * y⁻¹^2 + (-3 : K) * p * x⁻¹^2 + (-15/4 : K) * p^2 * x⁻¹^2 * y⁻¹^2) * fam.H 4 + ((-1 : K) * p * y⁻¹) * fam.GA 5 + ((2 : K) * p * x * y⁻¹^2 + (3 : K) * p^2 * x⁻¹ * y⁻¹^2 + (3/2 : K) * p^2 * x⁻¹^3) * fam.GB 5 + ((-1 : K) * p^2 * y⁻¹^2) * fam.H 6) * hyi

theorem Q_exchange_3_3_6 (p x y : K) (hx : x ≠ 0) (hy : y ≠ 0) (fam : Fam K) (h : ReductionsUp p x y fam) :
    Q p x y fam 3 3 6 = Q p y x (swapFam fam) 3 3 6 := by
  have hxi : x * x⁻¹ = 1 := mul_inv_cancel₀ hx
  have hyi : y * y⁻¹ = 1 := mul_inv_cancel₀ hy
  have e0 := h.hGA 1 (by norm_num)
  have e1 := h.hGB 1 (by norm_num)
  have e2 := h.hF 2 (by norm_num)
  have e3 := h.hGA 3 (by norm_num)
  have e4 := h.hGB 3 (by norm_num)
  have e5 := h.hF 4 (by norm_num)
  have e6 := h.hH 4 (by norm_num)
  have e7 := h.hGA 5 (by norm_num)
  have e8 := h.hGB 5 (by norm_num)
  have e9 := h.hF 6 (by norm_num)
  have e10 := h.hH 6 (by norm_num)
  have e11 := h.hGA 7 (by norm_num)
  have e12 := h.hGB 7 (by norm_num)
  simp only [Int.cast_ofNat, Int.cast_one, Int.reduceAdd] at e0 e1 e2 e3 e4 e5 e6 e7 e8 e9 e10 e11 e12
  norm_num [Q, recI, recJ, leaf, swapFam]
  linear_combination
    ((15/4 : K) * x⁻¹^2 * y⁻¹^3) * e0
    + ((-15/4 : K) * x⁻¹^3 * y⁻¹^2) * e1
    + ((-3 : K) * x⁻¹ * y⁻¹^3 + (3 : K) * x⁻¹^3 * y⁻¹) * e2
    + ((-3/2 : K) * y⁻¹^3 + (-3 : K) * x⁻¹^2 * y⁻¹ + (-15/2 : K) * p * x⁻¹^2 * y⁻¹^3) * e3
    + ((3 : K) * x⁻¹ * y⁻¹^2 + (3/2 : K) * x⁻¹^3 + (15/2 : K) * p * x⁻¹^3 * y⁻¹^2) * e4
    + ((-2 : K) * y * x⁻¹^3 + (2 : K) * x * y⁻¹^3 + (6 : K) * p * x⁻¹ * y⁻¹^3 + (-6 : K) * p * x⁻¹^3 * y⁻¹) * e5
    + ((-1 : K) * y⁻¹^2 + (1 : K) * x⁻¹^2) * e6
    + ((1/2 : K) * y⁻¹ + (1/2 : K) * y * x⁻¹^2 + (1/2 : K) * x^2 * y⁻¹^3 + (-3/4 : K) * p * y⁻¹^3 + (3/2 : K) * p * x⁻¹^2 * y⁻¹ + (15/8 : K) * p^2 * x⁻¹^2 * y⁻¹^3) * e7
    + ((-1/2 : K) * x⁻¹ + (-1/2 : K) * y^2 * x⁻¹^3 + (-1/2 : K) * x * y⁻¹^2 + (-3/2 : K) * p * x⁻¹ * y⁻¹^2 + (3/4 : K) * p * x⁻¹^3 + (-15/8 : K) * p^2 * x⁻¹^3 * y⁻¹^2) * e8
    + ((1 : K) * p * y * x⁻¹^3 + (-1 : K) * p * x * y⁻¹^3 + (-3/2 : K) * p^2 * x⁻¹ * y⁻¹^3 + (3/2 : K) * p^2 * x⁻¹^3 * y⁻¹) * e9
    + ((1/2 : K) * p * y⁻¹^2 + (-1/2 : K) * p * x⁻¹^2) * e10
    + ((1/2 : K) * p^2 * y⁻¹^3) * e11
    + ((-1/2 : K) * p^2 * x⁻¹^3) * e12
    + (((-3 : K) * x⁻¹ * y⁻¹^3) * fam.F 2 + ((15/2 : K) * x⁻¹^2 * y⁻¹^2) * fam.H 2 + ((-3 : K) * y⁻¹^3 + (-6 : K) * x⁻¹^2 * y⁻¹) * fam.GA 3 + ((6 : K) * x⁻¹ * y⁻¹ + (-3 : K) * x * y⁻¹^3 + (6 : K) * p * x⁻¹ * y⁻¹^3) * fam.F 4 + ((-6 : K) * y⁻¹^2 + (-3 : K) * x⁻¹^2 + (-15 : K) * p * x⁻¹^2 * y⁻¹^2) * fam.H 4 + ((4 : K) * y * x⁻¹^2 + (6 : K) * p * y⁻¹^3 + (12 : K) * p * x⁻¹^2 * y⁻¹) * fam.GA 5 + ((-2 : K) * x⁻¹) * fam.GB 5 + ((-1 : K) * y * x⁻¹ + (-3 : K) * p * x⁻¹ * y⁻¹ + (3/2 : K) * p * x * y⁻¹^3 + (-3/2 : K) * p^2 * x⁻¹ * y⁻¹^3) * fam.F 6 + ((1 : K) + (1 : K) * y^2 * x⁻¹^2 + (3 : K) * p * y⁻¹^2 + (-3/2 : K) * p * x⁻¹^2 + (15/4 : K) * p^2 * x⁻¹^2 * y⁻¹^2) * fam.H 6 + ((-2 : K) * p * y * x⁻¹^2 + (-3/2 : K) * p^2 * y⁻¹^3 + (-3 : K) * p^2 * x⁻¹^2 * y⁻¹) * fam.GA 7 + ((1 : K) * p * x⁻¹) * fam.GB 7 + ((1 : K) * p^2 * x⁻¹^2) * fam.H 8) * hxi
    + (((3 : K) * x⁻¹^3 * y⁻¹) * fam.F 2 + ((-15/2 : K) * x⁻¹^2 * y⁻¹^2) * fam.H 2 + ((6 : K) * x⁻¹ * y⁻¹^2 + (3 : K) * x⁻¹^3) * fam.GB 3 + ((-6 : K) * x⁻¹ * y⁻¹ + (3 : K) * y * x⁻¹^3 + (-6 : K) * p * x⁻¹^3 * y⁻¹) * fam.F 4 + ((3 : K) * y⁻¹^2 + (6 : K) * x⁻¹^2 + (15 : K) * p * x⁻¹^2 * y⁻¹^2) * fam.H 4 + ((2 : K) * y⁻¹) * fam.GA 5 + ((-4 : K) * x * y⁻¹^2 + (-12 : K) * p * x⁻¹ * y⁻¹^2 + (-6 : K) * p * x⁻¹^3) * fam.GB 5 + ((1 : K) * x * y⁻¹ + (3 : K) * p * x⁻¹ * y⁻¹ + (-3/2 : K) * p * y * x⁻¹^3 + (3/2 : K) * p^2 * x⁻¹^3 * y⁻¹) * fam.F 6 + ((-1 : K) + (-1 : K) * x^2 * y⁻¹^2 + (3/2 : K) * p * y⁻¹^2 + (-3 : K) * p * x⁻¹^2 + (-15/4 : K) * p^2 * x⁻¹^2 * y⁻¹^2) * fam.H 6 + ((-1 : K) * p * y⁻¹) * fam.GA 7 + ((2 : K) * p * x * y⁻¹^2 + (3 : K) * p^2 * x⁻¹ * y⁻¹^2 + (3/2 : K) * p^2 * x⁻¹^3) * fam.GB 7 + ((-1 : K) * p^2 * y⁻¹^2) * fam.H 8) * hyi

theorem Q_exchange_4_4_2 (p x y : K) (hx : x ≠ 0) (hy : y ≠ 0) (fam : Fam K) (h : ReductionsUp p x y fam) :
    Q p x y fam 4 4 2 = Q p y x (swapFam fam) 4 4 2 := by
  have hxi : x * x⁻¹ = 1 := mul_inv_cancel₀ hx
  have hyi : y * y⁻¹ = 1 := mul_inv_cancel₀ hy
  have e0 := h.hGA 1 (by norm_num)
  have e1 := h.hGB 1 (by norm_num)
  have e2 := h.hF 2 (by norm_num)
  have e3 := h.hH 2 (by norm_num)
  have e4 := h.hGA 3 (by norm_num)
  have e5 := h.hGB 3 (by norm_num)
  have e6 := h.hF 4 (by norm_num)
  simp only [Int.cast_ofNat, Int.cast_one, Int.reduceAdd] at e0 e1 e2 e3 e4 e5 e6
  norm_num [Q, recI, recJ, leaf, swapFam]
  linear_combination
    ((-1/2 : K) * x⁻¹ + (-1/2 : K) * y^2 * x⁻¹^3 + (-1/2 : K) * x * y⁻¹^2 + (-1/2 : K) * x^3 * y⁻¹^4 + (-5/2 : K) * p * x⁻¹ * y⁻¹^2 + (-9/4 : K) * p * x⁻¹^3 + (-7/4 : K) * p * x * y⁻¹^4 + (-35/8 : K) * p^2 * x⁻¹ * y⁻¹^4 + (-45/8 : K) * p^2 * x⁻¹^3 * y⁻¹^2 + (-105/16 : K) * p^3 * x⁻¹^3 * y⁻¹^4) * e0
    + ((1/2 : K) * y⁻¹ + (1/2 : K) * y * x⁻¹^2 + (1/2 : K) * y^3 * x⁻¹^4 + (1/2 : K) * x^2 * y⁻¹^3 + (9/4 : K) * p * y⁻¹^3 + (5/2 : K) * p * x⁻¹^2 * y⁻¹ + (7/4 : K) * p * y * x⁻¹^4 + (45/8 : K) * p^2 * x⁻¹^2 * y⁻¹^3 + (35/8 : K) * p^2 * x⁻¹^4 * y⁻¹ + (105/16 : K) * p^3 * x⁻¹^4 * y⁻¹^3) * e1
    + ((1/2 : K) * p * y⁻¹^2 + (-1/2 : K) * p * x⁻¹^2 + (-3/2 : K) * p * y^2 * x⁻¹^4 + (3/2 : K) * p * x^2 * y⁻¹^4 + (17/4 : K) * p^2 * y⁻¹^4 + (-17/4 : K) * p^2 * x⁻¹^4 + (45/8 : K) * p^3 * x⁻¹^2 * y⁻¹^4 + (-45/8 : K) * p^3 * x⁻¹^4 * y⁻¹^2) * e2
    + ((1 : K) * p * y * x⁻¹^3 + (-1 : K) * p * x * y⁻¹^3 + (-5/2 : K) * p^2 * x⁻¹ * y⁻¹^3 + (5/2 : K) * p^2 * x⁻¹^3 * y⁻¹) * e3
    + ((-1/2 : K) * p^2 * x⁻¹^3 + (-3/2 : K) * p^2 * x * y⁻¹^4 + (-5/2 : K) * p^3 * x⁻¹ * y⁻¹^4) * e4
    + ((1/2 : K) * p^2 * y⁻¹^3 + (3/2 : K) * p^2 * y * x⁻¹^4 + (5/2 : K) * p^3 * x⁻¹^4 * y⁻¹) * e5
    + ((1/2 : K) * p^3 * y⁻¹^4 + (-1/2 : K) * p^3 * x⁻¹^4) * e6
    + (((1 : K) + (1 : K) * y^2 * x⁻¹^2 + (5 : K) * p * y⁻¹^2 + (9/2 : K) * p * x⁻¹^2 + (-2 : K) * p * x^2 * y⁻¹^4 + (17/4 : K) * p^2 * y⁻¹^4 + (45/4 : K) * p^2 * x⁻¹^2 * y⁻¹^2 + (-9/2 : K) * p^2 * x * x⁻¹ * y⁻¹^4 + (45/8 : K) * p^3 * x⁻¹^2 * y⁻¹^4) * fam.F 2 + ((-1 : K) * y * x⁻¹ + (-1 : K) * y^3 * x⁻¹^3 + (-5 : K) * p * x⁻¹ * y⁻¹ + (-7/2 : K) * p * y * x⁻¹^3 + (-45/4 : K) * p^2 * x⁻¹ * y⁻¹^3 + (-35/4 : K) * p^2 * x⁻¹^3 * y⁻¹ + (-105/8 : K) * p^3 * x⁻¹^3 * y⁻¹^3) * fam.H 2 + ((1 : K) * p * x⁻¹ + (3 : K) * p * y^2 * x⁻¹^3 + (17/2 : K) * p^2 * x⁻¹^3 + (9 : K) * p^2 * x * y⁻¹^4 + (15/4 : K) * p^3 * x⁻¹ * y⁻¹^4 + (45/4 : K) * p^3 * x⁻¹^3 * y⁻¹^2) * fam.GA 3 + ((-2 : K) * p * y * x⁻¹^2 + (5 : K) * p^2 * y⁻¹^3 + (-5 : K) * p^2 * x⁻¹^2 * y⁻¹) * fam.GB 3 + ((1 : K) * p^2 * x⁻¹^2 + (-7 : K) * p^3 * y⁻¹^4) * fam.F 4 + ((-3 : K) * p^2 * y * x⁻¹^3 + (-5 : K) * p^3 * x⁻¹^3 * y⁻¹) * fam.H 4 + ((1 : K) * p^3 * x⁻¹^3) * fam.GA 5) * hxi
    + (((-1 : K) + (-1 : K) * x^2 * y⁻¹^2 + (-9/2 : K) * p * y⁻¹^2 + (-5 : K) * p * x⁻¹^2 + (2 : K) * p * y^2 * x⁻¹^4 + (-45/4 : K) * p^2 * x⁻¹^2 * y⁻¹^2 + (-17/4 : K) * p^2 * x⁻¹^4 + (9/2 : K) * p^2 * y * x⁻¹^4 * y⁻¹ + (-45/8 : K) * p^3 * x⁻¹^4 * y⁻¹^2) * fam.F 2 + ((1 : K) * x * y⁻¹ + (1 : K) * x^3 * y⁻¹^3 + (5 : K) * p * x⁻¹ * y⁻¹ + (7/2 : K) * p * x * y⁻¹^3 + (35/4 : K) * p^2 * x⁻¹ * y⁻¹^3 + (45/4 : K) * p^2 * x⁻¹^3 * y⁻¹ + (105/8 : K) * p^3 * x⁻¹^3 * y⁻¹^3) * fam.H 2 + ((2 : K) * p * x * y⁻¹^2 + (5 : K) * p^2 * x⁻¹ * y⁻¹^2 + (-5 : K) * p^2 * x⁻¹^3) * fam.GA 3 + ((-1 : K) * p * y⁻¹ + (-3 : K) * p * x^2 * y⁻¹^3 + (-17/2 : K) * p^2 * y⁻¹^3 + (-9 : K) * p^2 * y * x⁻¹^4 + (-45/4 : K) * p^3 * x⁻¹^2 * y⁻¹^3 + (-15/4 : K) * p^3 * x⁻¹^4 * y⁻¹) * fam.GB 3 + ((-1 : K) * p^2 * y⁻¹^2 + (7 : K) * p^3 * x⁻¹^4) * fam.F 4 + ((3 : K) * p^2 * x * y⁻¹^3 + (5 : K) * p^3 * x⁻¹ * y⁻¹^3) * fam.H 4 + ((-1 : K) * p^3 * y⁻¹^3) * fam.GB 5) * hyi

theorem Q_exchange_4_4_4 (p x y : K) (hx : x ≠ 0) (hy : y ≠ 0) (fam : Fam K) (h : ReductionsUp p x y fam) :
    Q p x y fam 4 4 4 = Q p y x (swapFam fam) 4 4 4 := by
  have hxi : x * x⁻¹ = 1 := mul_inv_cancel₀ hx
  have hyi : y * y⁻¹ = 1 := mul_inv_cancel₀ hy
  have e0 := h.hGA 1 (by norm_num)
  have e1 := h.hGB 1 (by norm_num)
  have e2 := h.hF 2 (by norm_num)
  have e3 := h.hH 2 (by norm_num)
  have e4 := h.hGA 3 (by norm_num)
  have e5 := h.hGB 3 (by norm_num)
  have e6 := h.hF 4 (by norm_num)
  have e7 := h.hH 4 (by norm_num)
  have e8 := h.hGA 5 (by norm_num)
  have e9 := h.hGB 5 (by norm_num)
  have e10 := h.hF 6 (by norm_num)
  simp only [Int.cast_ofNat, Int.cast_one, Int.reduceAdd] at e0 e1 e2 e3 e4 e5 e6 e7 e8 e9 e10
  norm_num [Q, recI, recJ, leaf, swapFam]
  linear_combination
    ((5/2 : K) * x⁻¹ * y⁻¹^2 + (9/4 : K) * x⁻¹^3 + (7/4 : K) * x * y⁻¹^4 + (35/4 : K) * p * x⁻¹ * y⁻¹^4 + (45/4 : K) * p * x⁻¹^3 * y⁻¹^2 + (315/16 : K) * p^2 * x⁻¹^3 * y⁻¹^4) * e0
    + ((-9/4 : K) * y⁻¹^3 + (-5/2 : K) * x⁻¹^2 * y⁻¹ + (-7/4 : K) * y * x⁻¹^4 + (-45/4 : K) * p * x⁻¹^2 * y⁻¹^3 + (-35/4 : K) * p * x⁻¹^4 * y⁻¹ + (-315/16 : K) * p^2 * x⁻¹^4 * y⁻¹^3) * e1
    + ((-1/2 : K) * y⁻¹^2 + (1/2 : K) * x⁻¹^2 + (3/2 : K) * y^2 * x⁻¹^4 + (-3/2 : K) * x^2 * y⁻¹^4 + (-17/2 : K) * p * y⁻¹^4 + (17/2 : K) * p * x⁻¹^4 + (-135/8 : K) * p^2 * x⁻¹^2 * y⁻¹^4 + (135/8 : K) * p^2 * x⁻¹^4 * y⁻¹^2) * e2
    + ((-1 : K) * y * x⁻¹^3 + (1 : K) * x * y⁻¹^3 + (5 : K) * p * x⁻¹ * y⁻¹^3 + (-5 : K) * p * x⁻¹^3 * y⁻¹) * e3
    + ((-1/2 : K) * x⁻¹ + (-1/2 : K) * y^2 * x⁻¹^3 + (-1/2 : K) * x * y⁻¹^2 + (-1/2 : K) * x^3 * y⁻¹^4 + (-5/2 : K) * p * x⁻¹ * y⁻¹^2 + (-5/4 : K) * p * x⁻¹^3 + (5/4 : K) * p * x * y⁻¹^4 + (25/8 : K) * p^2 * x⁻¹ * y⁻¹^4 + (-45/8 : K) * p^2 * x⁻¹^3 * y⁻¹^2 + (-105/16 : K) * p^3 * x⁻¹^3 * y⁻¹^4) * e4
    + ((1/2 : K) * y⁻¹ + (1/2 : K) * y * x⁻¹^2 + (1/2 : K) * y^3 * x⁻¹^4 + (1/2 : K) * x^2 * y⁻¹^3 + (5/4 : K) * p * y⁻¹^3 + (5/2 : K) * p * x⁻¹^2 * y⁻¹ + (-5/4 : K) * p * y * x⁻¹^4 + (45/8 : K) * p^2 * x⁻¹^2 * y⁻¹^3 + (-25/8 : K) * p^2 * x⁻¹^4 * y⁻¹ + (105/16 : K) * p^3 * x⁻¹^4 * y⁻¹^3) * e5
    + ((1/2 : K) * p * y⁻¹^2 + (-1/2 : K) * p * x⁻¹^2 + (-3/2 : K) * p * y^2 * x⁻¹^4 + (3/2 : K) * p * x^2 * y⁻¹^4 + (11/4 : K) * p^2 * y⁻¹^4 + (-11/4 : K) * p^2 * x⁻¹^4 + (45/8 : K) * p^3 * x⁻¹^2 * y⁻¹^4 + (-45/8 : K) * p^3 * x⁻¹^4 * y⁻¹^2) * e6
    + ((1 : K) * p * y * x⁻¹^3 + (-1 : K) * p * x * y⁻¹^3 + (-5/2 : K) * p^2 * x⁻¹ * y⁻¹^3 + (5/2 : K) * p^2 * x⁻¹^3 * y⁻¹) * e7
    + ((-1/2 : K) * p^2 * x⁻¹^3 + (-3/2 : K) * p^2 * x * y⁻¹^4 + (-5/2 : K) * p^3 * x⁻¹ * y⁻¹^4) * e8
    + ((1/2 : K) * p^2 * y⁻¹^3 + (3/2 : K) * p^2 * y * x⁻¹^4 + (5/2 : K) * p^3 * x⁻¹^4 * y⁻¹) * e9
    + ((1/2 : K) * p^3 * y⁻¹^4 + (-1/2 : K) * p^3 * x⁻¹^4) * e10
    + (((-5 : K) * y⁻¹^2 + (-9/2 : K) * x⁻¹^2 + (2 : K) * x^2 * y⁻¹^4 + (-17/2 : K) * p * y⁻¹^4 + (-45/2 : K) * p * x⁻¹^2 * y⁻¹^2 + (9 : K) * p * x * x⁻¹ * y⁻¹^4 + (-135/8 : K) * p^2 * x⁻¹^2 * y⁻¹^4) * fam.F 2 + ((5 : K) * x⁻¹ * y⁻¹ + (7/2 : K) * y * x⁻¹^3 + (45/2 : K) * p * x⁻¹ * y⁻¹^3 + (35/2 : K) * p * x⁻¹^3 * y⁻¹ + (315/8 : K) * p^2 * x⁻¹^3 * y⁻¹^3) * fam.H 2 + ((-1 : K) * x⁻¹ + (-3 : K) * y^2 * x⁻¹^3 + (-17 : K) * p * x⁻¹^3 + (-18 : K) * p * x * y⁻¹^4 + (-45/4 : K) * p^2 * x⁻¹ * y⁻¹^4 + (-135/4 : K) * p^2 * x⁻¹^3 * y⁻¹^2) * fam.GA 3 + ((2 : K) * y * x⁻¹^2 + (-10 : K) * p * y⁻¹^3 + (10 : K) * p * x⁻¹^2 * y⁻¹) * fam.GB 3 + ((1 : K) + (1 : K) * y^2 * x⁻¹^2 + (5 : K) * p * y⁻¹^2 + (5/2 : K) * p * x⁻¹^2 + (-2 : K) * p * x^2 * y⁻¹^4 + (101/4 : K) * p^2 * y⁻¹^4 + (45/4 : K) * p^2 * x⁻¹^2 * y⁻¹^2 + (-9/2 : K) * p^2 * x * x⁻¹ * y⁻¹^4 + (45/8 : K) * p^3 * x⁻¹^2 * y⁻¹^4) * fam.F 4 + ((-1 : K) * y * x⁻¹ + (-1 : K) * y^3 * x⁻¹^3 + (-5 : K) * p * x⁻¹ * y⁻¹ + (5/2 : K) * p * y * x⁻¹^3 + (-45/4 : K) * p^2 * x⁻¹ * y⁻¹^3 + (25/4 : K) * p^2 * x⁻¹^3 * y⁻¹ + (-105/8 : K) * p^3 * x⁻¹^3 * y⁻¹^3) * fam.H 4 + ((1 : K) * p * x⁻¹ + (3 : K) * p * y^2 * x⁻¹^3 + (11/2 : K) * p^2 * x⁻¹^3 + (9 : K) * p^2 * x * y⁻¹^4 + (15/4 : K) * p^3 * x⁻¹ * y⁻¹^4 + (45/4 : K) * p^3 * x⁻¹^3 * y⁻¹^2) * fam.GA 5 + ((-2 : K) * p * y * x⁻¹^2 + (5 : K) * p^2 * y⁻¹^3 + (-5 : K) * p^2 * x⁻¹^2 * y⁻¹) * fam.GB 5 + ((1 : K) * p^2 * x⁻¹^2 + (-7 : K) * p^3 * y⁻¹^4) * fam.F 6 + ((-3 : K) * p^2 * y * x⁻¹^3 + (-5 : K) * p^3 * x⁻¹^3 * y⁻¹) * fam.H 6 + ((1 : K) * p^3 * x⁻¹^3) * fam.GA 7) * hxi
    + (((9/2 : K) * y⁻¹^2 + (5 : K) * x⁻¹^2 + (-2 : K) * y^2 * x⁻¹^4 + (45/2 : K) * p * x⁻¹^2 * y⁻¹^2 + (17/2 : K) * p * x⁻¹^4 + (-9 : K) * p * y * x⁻¹^4 * y⁻¹ + (135/8 : K) * p^2 * x⁻¹^4 * y⁻¹^2) * fam.F 2 + ((-5 : K) * x⁻¹ * y⁻¹ + (-7/2 : K) * x * y⁻¹^3 + (-35/2 : K) * p * x⁻¹ * y⁻¹^3 + (-45/2 : K) * p * x⁻¹^3 * y⁻¹ + (-315/8 : K) * p^2 * x⁻¹^3 * y⁻¹^3) * fam.H 2 + ((-2 : K) * x * y⁻¹^2 + (-10 : K) * p * x⁻¹ * y⁻¹^2 + (10 : K) * p * x⁻¹^3) * fam.GA 3 + ((1 : K) * y⁻¹ + (3 : K) * x^2 * y⁻¹^3 + (17 : K) * p * y⁻¹^3 + (18 : K) * p * y * x⁻¹^4 + (135/4 : K) * p^2 * x⁻¹^2 * y⁻¹^3 + (45/4 : K) * p^2 * x⁻¹^4 * y⁻¹) * fam.GB 3 + ((-1 : K) + (-1 : K) * x^2 * y⁻¹^2 + (-5/2 : K) * p * y⁻¹^2 + (-5 : K) * p * x⁻¹^2 + (2 : K) * p * y^2 * x⁻¹^4 + (-45/4 : K) * p^2 * x⁻¹^2 * y⁻¹^2 + (-101/4 : K) * p^2 * x⁻¹^4 + (9/2 : K) * p^2 * y * x⁻¹^4 * y⁻¹ + (-45/8 : K) * p^3 * x⁻¹^4 * y⁻¹^2) * fam.F 4 + ((1 : K) * x * y⁻¹ + (1 : K) * x^3 * y⁻¹^3 + (5 : K) * p * x⁻¹ * y⁻¹ + (-5/2 : K) * p * x * y⁻¹^3 + (-25/4 : K) * p^2 * x⁻¹ * y⁻¹^3 + (45/4 : K) * p^2 * x⁻¹^3 * y⁻¹ + (105/8 : K) * p^3 * x⁻¹^3 * y⁻¹^3) * fam.H 4 + ((2 : K) * p * x * y⁻¹^2 + (5 : K) * p^2 * x⁻¹ * y⁻¹^2 + (-5 : K) * p^2 * x⁻¹^3) * fam.GA 5 + ((-1 : K) * p * y⁻¹ + (-3 : K) * p * x^2 * y⁻¹^3 + (-11/2 : K) * p^2 * y⁻¹^3 + (-9 : K) * p^2 * y * x⁻¹^4 + (-45/4 : K) * p^3 * x⁻¹^2 * y⁻¹^3 + (-15/4 : K) * p^3 * x⁻¹^4 * y⁻¹) * fam.GB 5 + ((-1 : K) * p^2 * y⁻¹^2 + (7 : K) * p^3 * x⁻¹^4) * fam.F 6 + ((3 : K) * p^2 * x * y⁻¹^3 + (5 : K) * p^3 * x⁻¹ * y⁻¹^3) * fam.H 6 + ((-1 : K) * p^3 * y⁻¹^3) * fam.GB 7) * hyi

/-- the (l, k) of the generated cases with equal Bessel orders l1 = l2 = l -/
def equalOrderKeys : List (Nat × Nat) := [(0, 2), (0, 4), (0, 6), (0, 8), (0, 10), (0, 12), (1, 2), (1, 4), (1, 6), (1, 8), (1, 10), (2, 2), (2, 4), (2, 6), (2, 8), (3, 2), (3, 4), (3, 6), (4, 2), (4, 4)]

theorem equalOrderKeys_eq :
    equalOrderKeys = ((Ecpint.Gen.radialCaseKeys.filter fun n => n / 10000 = (n / 100) % 100).map fun n => (n / 10000, n % 100)) := by
  decide

/-- Stage 2, positive part: every generated equal-order case is exchange symmetric under the N ≥ 1 relations -/
theorem Q_exchange_generated (p x y : K) (hx : x ≠ 0) (hy : y ≠ 0) (fam : Fam K) (h : ReductionsUp p x y fam)
    (l k : Nat) (hlk : (l, k) ∈ equalOrderKeys) :
    Q p x y fam l l (k : Int) = Q p y x (swapFam fam) l l (k : Int) := by
  simp only [equalOrderKeys, List.mem_cons, Prod.mk.injEq, List.not_mem_nil, or_false] at hlk
  rcases hlk with ⟨rfl, rfl⟩ | ⟨rfl, rfl⟩ | ⟨rfl, rfl⟩ | ⟨rfl, rfl⟩ | ⟨rfl, rfl⟩ | ⟨rfl, rfl⟩ | ⟨rfl, rfl⟩ | ⟨rfl, rfl⟩ | ⟨rfl, rfl⟩ | ⟨rfl, rfl⟩ | ⟨rfl, rfl⟩ | ⟨rfl, rfl⟩ | ⟨rfl, rfl⟩ | ⟨rfl, rfl⟩ | ⟨rfl, rfl⟩ | ⟨rfl, rfl⟩ | ⟨rfl, rfl⟩ | ⟨rfl, rfl⟩ | ⟨rfl, rfl⟩ | ⟨rfl, rfl⟩
  · exact Q_exchange_0_0 p x y fam _
  · exact Q_exchange_0_0 p x y fam _
  · exact Q_exchange_0_0 p x y fam _
  · exact Q_exchange_0_0 p x y fam _
  · exact Q_exchange_0_0 p x y fam _
  · exact Q_exchange_0_0 p x y fam _
  · exact Q_exchange_1_1_2 p x y hx hy fam h
  · exact Q_exchange_1_1_4 p x y hx hy fam h
  · exact Q_exchange_1_1_6 p x y hx hy fam h
  · exact Q_exchange_1_1_8 p x y hx hy fam h
  · exact Q_exchange_1_1_10 p x y hx hy fam h
  · exact Q_exchange_2_2_2 p x y hx hy fam h
  · exact Q_exchange_2_2_4 p x y hx hy fam h
  · exact Q_exchange_2_2_6 p x y hx hy fam h
  · exact Q_exchange_2_2_8 p x y hx hy fam h
  · exact Q_exchange_3_3_2 p x y hx hy fam h
  · exact Q_exchange_3_3_4 p x y hx hy fam h
  · exact Q_exchange_3_3_6 p x y hx hy fam h
  · exact Q_exchange_4_4_2 p x y hx hy fam h
  · exact Q_exchange_4_4_4 p x y hx hy fam h

/-- the same with the hypotheses of the closed-form case proofs (`Reductions`) next to the N ≥ 1 relations; only the
latter are used -/
theorem Q_exchange_generated_of_reductions (p x y : K) (hx : x ≠ 0) (hy : y ≠ 0) (fam : Fam K)
    (_h : Reductions p x y fam) (hu : ReductionsUp p x y fam) (l k : Nat) (hlk : (l, k) ∈ equalOrderKeys) :
    Q p x y fam l l (k : Int) = Q p y x (swapFam fam) l l (k : Int) :=
  Q_exchange_generated p x y hx hy fam hu l k hlk

end
end Ecpint.C07c
