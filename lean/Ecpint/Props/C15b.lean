/-
C15b — the Pérez-Jordá Gauss–Chebyshev rule behind `GCQuadrature` as a statement about ∫_{-1}^{1} f (real analysis).
Model: Ecpint/Model/Quad.lean (`nodeX`, `nodeW`, `integrate`'s final scaling 16·T/(3(n+1))); C15.lean has the index sets.

Proved (all over ℝ):
  1. x(θ) = 1 + 2/(3π)((3 + 2sin²θ)cosθ sinθ − 3θ) has x' = −16/(3π)·sin⁴θ, x(0) = 1, x(π) = −1, is strictly decreasing on
     [0, π], and ∫_{-1}^{1} f = ∫_0^π f(x(θ))·16/(3π)·sin⁴θ dθ for continuous f — the weights are the Jacobian.
  2. Σ_{i=1}^{n} sin⁴(iπ/(n+1)) = 3(n+1)/8 for n ≥ 2 (for n = 1 it is 1), so constants are integrated exactly.
  3. nesting: node i of the n-rule is node 2i of the (2n+1)-rule; in the two-point scheme (m+1 = 3/2(n+1)) node i of the
     n-rule is node 3i and node i of the (n−1)/2-rule is node 6i of the (2m+1)-rule; hence
     T_{2n+1} = T_n + (odd nodes) and T_{2m+1} = T_m + T_n − T_{(n−1)/2} + (nodes ≡ ±1 mod 6), the update formulas of `integrate`.
  4. (a) the n-point rule is exact whenever sin⁴θ·f(x(θ)) is a cosine polynomial of degree < 2(n+1) on [0, π];
     (b) for every continuous f the rule converges to ∫_{-1}^{1} f as n → ∞;
     (c) the half-line map of `transformZeroInf`: ∫_0^∞ g = ∫_{-1}^{1} g(1 − log(1−x)/log 2)/(log 2·(1−x)) dx for EVERY g
         (both sides are 0 together when not integrable), integrability transfers, and convergence of the transformed rule
         when the transformed integrand is continuous on [−1, 1].
Not proved here: an error bound for a given n, or anything about the acceptance tests (see C15.lean header).
-/
import Ecpint.Model.Quad
import Ecpint.Lemmas.QuadReal
import Mathlib.Tactic.FieldSimp
import Mathlib.Tactic.Ring
import Mathlib.Tactic.Linarith
import Mathlib.Analysis.SpecialFunctions.Trigonometric.Deriv
import Mathlib.Analysis.Calculus.Deriv.MeanValue
import Mathlib.MeasureTheory.Integral.IntervalIntegral.IntegrationByParts
import Mathlib.Analysis.SpecialFunctions.Integrals.Basic
import Mathlib.MeasureTheory.Function.JacobianOneDim
import Mathlib.Analysis.SpecialFunctions.Log.Deriv

namespace Ecpint.C15b
open Real Ecpint.QuadReal Filter Topology MeasureTheory Set

/-- the abscissa as a function of the angle (this is `Quad.nodeX (2/(3π)) θ (sin θ) (cos θ)`) -/
noncomputable def xOf (θ : ℝ) : ℝ := 1 + 2 / (3 * π) * ((3 + 2 * sin θ ^ 2) * cos θ * sin θ - 3 * θ)

theorem xOf_eq_nodeX (θ : ℝ) : xOf θ = Ecpint.Quad.nodeX (2 / (3 * π)) θ (sin θ) (cos θ) := by
  simp only [xOf, Ecpint.Quad.nodeX]
  push_cast
  ring

theorem xOf_hasDerivAt (θ : ℝ) : HasDerivAt xOf (-(16 / (3 * π)) * sin θ ^ 4) θ := by
  have hs := hasDerivAt_sin θ
  have hc := hasDerivAt_cos θ
  have h1 : HasDerivAt (fun θ : ℝ => (3 + 2 * sin θ ^ 2) * cos θ * sin θ - 3 * θ)
      (((2 * (2 * sin θ * cos θ)) * cos θ + (3 + 2 * sin θ ^ 2) * (-sin θ)) * sin θ
        + (3 + 2 * sin θ ^ 2) * cos θ * cos θ - 3 * 1) θ := by
    have h2 : HasDerivAt (fun θ : ℝ => 3 + 2 * sin θ ^ 2) (2 * (2 * sin θ * cos θ)) θ := by
      exact (((hs.fun_pow 2).const_mul 2).const_add 3).congr_deriv (by norm_num)
    exact ((h2.mul hc).mul hs).sub ((hasDerivAt_id' θ).const_mul 3)
  have h3 := (h1.const_mul (2 / (3 * π))).const_add 1
  have e : -(16 / (3 * π)) * sin θ ^ 4 = 2 / (3 * π) * (((2 * (2 * sin θ * cos θ)) * cos θ + (3 + 2 * sin θ ^ 2) * (-sin θ)) * sin θ
        + (3 + 2 * sin θ ^ 2) * cos θ * cos θ - 3 * 1) := by
    have hcs : cos θ ^ 2 = 1 - sin θ ^ 2 := cos_sq' θ
    have : cos θ * cos θ = 1 - sin θ ^ 2 := by rw [← hcs]; ring
    have hpi := pi_ne_zero
    field_simp
    ring_nf
    rw [hcs]
    ring
  rw [e]
  exact h3

theorem xOf_zero : xOf 0 = 1 := by simp [xOf]

theorem xOf_pi : xOf π = -1 := by
  have hpi := pi_ne_zero
  simp only [xOf, sin_pi, cos_pi]
  field_simp
  ring

theorem xOf_continuous : Continuous xOf :=
  continuous_iff_continuousAt.2 fun θ => (xOf_hasDerivAt θ).continuousAt

theorem xOf_deriv (θ : ℝ) : deriv xOf θ = -(16 / (3 * π)) * sin θ ^ 4 := (xOf_hasDerivAt θ).deriv

theorem xOf_strictAntiOn : StrictAntiOn xOf (Set.Icc 0 π) := by
  apply strictAntiOn_of_deriv_neg (convex_Icc 0 π) xOf_continuous.continuousOn
  intro θ hθ
  rw [interior_Icc] at hθ
  rw [xOf_deriv]
  have hs : 0 < sin θ := sin_pos_of_pos_of_lt_pi hθ.1 hθ.2
  have : 0 < 16 / (3 * π) * sin θ ^ 4 := by positivity
  linarith

theorem xOf_mem (θ : ℝ) (h : θ ∈ Set.Icc 0 π) : xOf θ ∈ Set.Icc (-1) 1 := by
  have h0 : (0 : ℝ) ∈ Set.Icc 0 π := ⟨le_refl _, pi_pos.le⟩
  have hp : π ∈ Set.Icc 0 π := ⟨pi_pos.le, le_refl _⟩
  have ha := xOf_strictAntiOn.antitoneOn
  constructor
  · rw [← xOf_pi]; exact ha h hp h.2
  · rw [← xOf_zero]; exact ha h0 h h.1

/-- ∫_{-1}^{1} f = ∫_0^π f(x(θ)) · 16/(3π) sin⁴θ dθ : the quadrature is the (n+1)-panel trapezoid rule of the right-hand side
(whose integrand vanishes at both ends), with step π/(n+1) -/
theorem integral_change_of_variables (f : ℝ → ℝ) (hf : Continuous f) :
    ∫ x in (-1 : ℝ)..1, f x = ∫ θ in (0 : ℝ)..π, f (xOf θ) * (16 / (3 * π) * sin θ ^ 4) := by
  have h := intervalIntegral.integral_comp_mul_deriv (a := 0) (b := π) (f := xOf)
    (f' := fun θ => -(16 / (3 * π)) * sin θ ^ 4) (g := f)
    (fun θ _ => xOf_hasDerivAt θ) (by fun_prop) hf
  rw [xOf_zero, xOf_pi, intervalIntegral.integral_symm (-1) 1] at h
  rw [← neg_neg (∫ x in (-1 : ℝ)..1, f x), ← h, ← intervalIntegral.integral_neg]
  congr 1
  funext θ
  simp only [Function.comp]
  ring

/-! ### Stage 2: the weights are normalised -/

theorem sum_sin_pow_four (n : ℕ) (hn : 2 ≤ n) :
    ∑ i ∈ Finset.range n, sin ((i + 1 : ℕ) * π / (n + 1)) ^ 4 = 3 * (n + 1) / 8 := by
  have h2 := sum_cos_nodes n 2 (by norm_num) (by omega)
  have h4 := sum_cos_nodes n 4 (by norm_num) (by omega)
  simp only [Nat.cast_ofNat] at h2 h4
  simp_rw [sin_pow_four_eq]
  rw [← Finset.sum_div, Finset.sum_add_distrib, Finset.sum_sub_distrib, ← Finset.mul_sum, h2, h4]
  simp only [Finset.sum_const, Finset.card_range, nsmul_eq_mul]
  norm_num
  ring

/-- for n = 1 the single weight is sin⁴(π/2) = 1, not 3/4: the normalisation needs n ≥ 2 -/
theorem sum_sin_pow_four_one :
    ∑ i ∈ Finset.range 1, sin ((i + 1 : ℕ) * π / ((1 : ℕ) + 1)) ^ 4 = 1 := by
  norm_num

theorem rule_exact_on_constants (n : ℕ) (hn : 2 ≤ n) (c : ℝ) :
    16 / (3 * (n + 1)) * ∑ i ∈ Finset.range n, Ecpint.Quad.nodeW (sin ((i + 1 : ℕ) * π / (n + 1))) * c = 2 * c := by
  have h := sum_sin_pow_four n hn
  have hw : ∀ s : ℝ, Ecpint.Quad.nodeW s = s ^ 4 := fun s => by simp only [Ecpint.Quad.nodeW]; ring
  simp_rw [hw]
  rw [← Finset.sum_mul, h]
  have : (0 : ℝ) < (n : ℝ) + 1 := by positivity
  field_simp
  ring

/-! ### Stage 3: nesting -/

/-- node i of the n-point rule is node 2i of the (2n+1)-point rule (1-based angles) -/
theorem nodes_nested (n i : ℕ) : ((i : ℝ) * π / (n + 1)) = ((2 * i : ℕ) : ℝ) * π / ((2 * n + 1 : ℕ) + 1) := by
  push_cast
  field_simp
  ring

/-- two-point sequence (`integrate`, TWOPOINT branch: m + 1 = 3/2·(n + 1)): node i of the n-point rule of the
companion one-point sequence is node 3i of the (2m+1)-point rule being built -/
theorem nodes_nested_twoPoint (m n i : ℕ) (h : 2 * (m + 1) = 3 * (n + 1)) :
    ((i : ℝ) * π / (n + 1)) = ((3 * i : ℕ) : ℝ) * π / ((2 * m + 1 : ℕ) + 1) := by
  have hR : (2 : ℝ) * ((m : ℝ) + 1) = 3 * ((n : ℝ) + 1) := by exact_mod_cast h
  have hn : (0 : ℝ) < (n : ℝ) + 1 := by positivity
  have hm : (0 : ℝ) < (m : ℝ) + 1 := by positivity
  push_cast
  rw [div_eq_div_iff hn.ne' (by positivity)]
  linear_combination ((i : ℝ) * π) * hR

/-- … and node i of the rule before that, T_{(n−1)/2} (the term subtracted in T_{2m+1} = T_m + T_n − T_{(n−1)/2} + new),
is node 6i of the (2m+1)-point rule -/
theorem nodes_nested_twoPoint_half (m n n' i : ℕ) (h : 2 * (m + 1) = 3 * (n + 1)) (hn' : n = 2 * n' + 1) :
    ((i : ℝ) * π / (n' + 1)) = ((6 * i : ℕ) : ℝ) * π / ((2 * m + 1 : ℕ) + 1) := by
  subst hn'
  have hR : (2 : ℝ) * ((m : ℝ) + 1) = 3 * ((2 * (n' : ℝ) + 1) + 1) := by exact_mod_cast h
  have hn : (0 : ℝ) < (n' : ℝ) + 1 := by positivity
  have hm : (0 : ℝ) < (m : ℝ) + 1 := by positivity
  push_cast
  rw [div_eq_div_iff hn.ne' (by positivity)]
  linear_combination ((i : ℝ) * π) * hR

/-- angle of node i (1-based, i = 1..n) of the n-point rule -/
noncomputable def theta (n i : ℕ) : ℝ := (i : ℝ) * π / ((n : ℝ) + 1)

/-- the `shift` (stride) of `sumTerms`: node j·s of the (N·s − 1)-point grid is node j of the (N − 1)-point rule -/
theorem theta_stride (N s j : ℕ) (hN : 0 < N) (hs : 0 < s) : theta (N * s - 1) (j * s) = theta (N - 1) j := by
  have h1 : 1 ≤ N * s := Nat.mul_pos hN hs
  have hN' : (0 : ℝ) < N := by exact_mod_cast hN
  have hs' : (0 : ℝ) < s := by exact_mod_cast hs
  simp only [theta]
  rw [Nat.cast_sub h1, Nat.cast_sub hN]
  push_cast
  rw [div_eq_div_iff (by rw [sub_add_cancel]; positivity) (by rw [sub_add_cancel]; positivity)]
  ring

/-- one term w_i f(x_i) of the n-point rule -/
noncomputable def term (f : ℝ → ℝ) (n i : ℕ) : ℝ :=
  Ecpint.Quad.nodeW (sin (theta n i)) * f (xOf (theta n i))

/-- T_n = Σ_{i=1}^{n} w_i f(x_i), the quantity `integrate` accumulates -/
noncomputable def T (f : ℝ → ℝ) (n : ℕ) : ℝ := ∑ i ∈ Finset.range n, term f n (i + 1)

/-- I_n = 16·T_n/(3(n+1)), what `integrate` returns -/
noncomputable def rule (f : ℝ → ℝ) (n : ℕ) : ℝ := 16 * T f n / (3 * ((n : ℝ) + 1))

theorem term_even (f : ℝ → ℝ) (n i : ℕ) : term f (2 * n + 1) (2 * i) = term f n i := by
  have := nodes_nested n i
  simp only [term, theta]
  push_cast at this ⊢
  rw [← this]

/-- **one-point step**: T_{2n+1} = T_n + Σ (odd-numbered nodes of the (2n+1)-point rule), which is
`T2n1 = Tn + sumTerms(...)` -/
theorem T_onePoint_step (f : ℝ → ℝ) (n : ℕ) :
    T f (2 * n + 1) = T f n + ∑ i ∈ Finset.range (n + 1), term f (2 * n + 1) (2 * i + 1) := by
  simp only [T]
  rw [sum_split_odd_even (fun j => term f (2 * n + 1) j) n]
  simp only [term_even]

theorem term_mul_two (f : ℝ → ℝ) (K i : ℕ) : term f (6 * K + 5) (2 * i) = term f (3 * K + 2) i := by
  have : 6 * K + 5 = 2 * (3 * K + 2) + 1 := by ring
  rw [this, term_even]

theorem term_mul_three (f : ℝ → ℝ) (K i : ℕ) : term f (6 * K + 5) (3 * i) = term f (2 * K + 1) i := by
  have := nodes_nested_twoPoint (3 * K + 2) (2 * K + 1) i (by ring)
  have e : 2 * (3 * K + 2) + 1 = 6 * K + 5 := by ring
  rw [e] at this
  simp only [term, theta]
  push_cast at this ⊢
  rw [← this]

theorem term_mul_six (f : ℝ → ℝ) (K i : ℕ) : term f (6 * K + 5) (6 * i) = term f K i := by
  have := nodes_nested_twoPoint_half (3 * K + 2) (2 * K + 1) K i (by ring) rfl
  have e : 2 * (3 * K + 2) + 1 = 6 * K + 5 := by ring
  rw [e] at this
  simp only [term, theta]
  push_cast at this ⊢
  rw [← this]

/-- **two-point step** (m = 3K+2, n = 2K+1, (n−1)/2 = K, 2m+1 = 6K+5; in the code K = 2^k − 1):
T_{2m+1} = T_m + T_n − T_{(n−1)/2} + Σ_{j=0}^{(m−2)/3} [w_{6j+1} f(x_{6j+1}) + w_{6j+5} f(x_{6j+5})] -/
theorem T_twoPoint_step (f : ℝ → ℝ) (K : ℕ) :
    T f (6 * K + 5) = T f (3 * K + 2) + T f (2 * K + 1) - T f K
      + ∑ j ∈ Finset.range (K + 1), (term f (6 * K + 5) (6 * j + 1) + term f (6 * K + 5) (6 * j + 5)) := by
  simp only [T]
  rw [sum_split_mod_six (fun j => term f (6 * K + 5) j) K]
  simp only [term_mul_two, term_mul_three, term_mul_six]

/-- Stage 2 in terms of `rule`: constants are integrated exactly by every rule with n ≥ 2 points -/
theorem rule_const (n : ℕ) (hn : 2 ≤ n) (c : ℝ) : rule (fun _ => c) n = ∫ _x in (-1 : ℝ)..1, c := by
  have h := rule_exact_on_constants n hn c
  have hn' : (0 : ℝ) < (n : ℝ) + 1 := by positivity
  rw [intervalIntegral.integral_const, smul_eq_mul]
  simp only [rule, T, term, theta]
  have e : (1 - -1 : ℝ) * c = 2 * c := by ring
  rw [e, ← h]
  ring

/-! ### Stage 4a: exactness on cosine polynomials of degree < 2(n+1) in the angle -/

theorem nodeW_eq (s : ℝ) : Ecpint.Quad.nodeW s = s ^ 4 := by simp only [Ecpint.Quad.nodeW]; ring

theorem theta_mem (n i : ℕ) (hi : i ≤ n + 1) : theta n i ∈ Set.Icc 0 π := by
  have hn : (0 : ℝ) < (n : ℝ) + 1 := by positivity
  have hi' : (i : ℝ) ≤ (n : ℝ) + 1 := by exact_mod_cast hi
  constructor
  · unfold theta; positivity
  · unfold theta
    rw [div_le_iff₀ hn]
    nlinarith [pi_pos]

/-- the rule is the trapezoid rule for g(θ) = sin⁴θ·f(x(θ)) on [0, π] (whose even 2π-periodic extension is what is
really being integrated): if g is a cosine polynomial of degree < 2(n+1) the n-point rule is exact.
(sin⁴ itself has degree 4, which is why constants need n ≥ 2.) -/
theorem rule_exact_of_cos_poly (n : ℕ) (f : ℝ → ℝ) (hf : Continuous f) (a : ℕ → ℝ)
    (hg : ∀ θ ∈ Set.Icc 0 π, sin θ ^ 4 * f (xOf θ) = ∑ k ∈ Finset.range (2 * (n + 1)), a k * cos ((k : ℝ) * θ)) :
    rule f n = ∫ x in (-1 : ℝ)..1, f x := by
  have hN : 2 * (n + 1) = 2 * n + 1 + 1 := by ring
  rw [hN] at hg
  have h0 := hg 0 ⟨le_refl _, pi_pos.le⟩
  have hp := hg π ⟨pi_pos.le, le_refl _⟩
  simp only [sin_zero, mul_zero, cos_zero, mul_one, ne_eq, OfNat.ofNat_ne_zero, not_false_eq_true, zero_pow,
    zero_mul] at h0
  simp only [sin_pi, ne_eq, OfNat.ofNat_ne_zero, not_false_eq_true, zero_pow, zero_mul, cos_nat_mul_pi] at hp
  have hs : ∑ k ∈ Finset.range (2 * n + 1 + 1), a k * ((1 + (-1) ^ k) / 2) = 0 := by
    have : ∀ k, a k * ((1 + (-1) ^ k) / 2) = (a k + a k * (-1) ^ k) / 2 := fun k => by ring
    simp_rw [this]
    rw [← Finset.sum_div, Finset.sum_add_distrib, ← h0, ← hp]
    simp
  rw [Finset.sum_range_succ'] at hs
  -- the sum
  have hT : T f n = a 0 * n - ∑ k ∈ Finset.range (2 * n + 1), a (k + 1) * ((1 + (-1) ^ (k + 1)) / 2) := by
    rw [← trap_cos_poly]
    simp only [T, term, nodeW_eq]
    apply Finset.sum_congr rfl
    intro i hi
    rw [Finset.mem_range] at hi
    rw [hg _ (theta_mem n (i + 1) (by omega))]
    rfl
  -- the integral
  have hI : ∫ x in (-1 : ℝ)..1, f x = 16 / (3 * π) * (a 0 * π) := by
    rw [integral_change_of_variables f hf, ← integral_cos_poly (2 * n + 1) a, ← intervalIntegral.integral_const_mul]
    apply intervalIntegral.integral_congr
    intro θ hθ
    rw [Set.uIcc_of_le pi_pos.le] at hθ
    simp only []
    rw [← hg θ hθ]
    ring
  rw [hI, rule, hT]
  have hn : (0 : ℝ) < (n : ℝ) + 1 := by positivity
  have hpi := pi_pos
  simp only [pow_zero] at hs
  have hS : ∑ k ∈ Finset.range (2 * n + 1), a (k + 1) * ((1 + (-1) ^ (k + 1)) / 2) = -a 0 := by linarith
  rw [hS]
  field_simp
  ring

/-! ### Stage 4b: convergence for every continuous integrand -/

/-- the n-point rule as a right-endpoint Riemann sum with n+1 panels on [0, π] (the last node, θ = π, has weight 0) -/
theorem rule_eq_riemann_sum (f : ℝ → ℝ) (n : ℕ) :
    rule f n = 16 / (3 * π) * (π / ((n : ℝ) + 1) * ∑ i ∈ Finset.range (n + 1),
      (fun θ => sin θ ^ 4 * f (xOf θ)) (((i + 1 : ℕ) : ℝ) * (π / ((n : ℝ) + 1)))) := by
  have hn : (0 : ℝ) < (n : ℝ) + 1 := by positivity
  have hpi := pi_pos
  rw [Finset.sum_range_succ]
  have hlast : ((n + 1 : ℕ) : ℝ) * (π / ((n : ℝ) + 1)) = π := by push_cast; field_simp
  simp only [hlast, sin_pi, ne_eq, OfNat.ofNat_ne_zero, not_false_eq_true, zero_pow, zero_mul, add_zero]
  simp only [rule, T, term, nodeW_eq, theta, mul_div_assoc]
  field_simp
  simp only [mul_comm π]

/-- **convergence**: for every continuous f the rule tends to ∫_{-1}^{1} f as the number of points grows -/
theorem rule_tendsto_integral (f : ℝ → ℝ) (hf : Continuous f) :
    Tendsto (fun n : ℕ => rule f n) atTop (𝓝 (∫ x in (-1 : ℝ)..1, f x)) := by
  have hg : Continuous (fun θ => sin θ ^ 4 * f (xOf θ)) := by
    have := xOf_continuous
    fun_prop
  have h := (tendsto_right_riemann_sum _ hg π pi_pos.le).const_mul (16 / (3 * π))
  have e : ∫ x in (-1 : ℝ)..1, f x = 16 / (3 * π) * ∫ θ in (0 : ℝ)..π, sin θ ^ 4 * f (xOf θ) := by
    rw [integral_change_of_variables f hf, ← intervalIntegral.integral_const_mul]
    congr 1
    funext θ
    ring
  rw [e]
  refine h.congr (fun n => ?_)
  rw [rule_eq_riemann_sum]

/-! ### Stage 4c: the half-line map of `transformZeroInf` -/

theorem log_two_pos : 0 < log 2 := log_pos (by norm_num)


/-- the half-line map of `transformZeroInf` -/
noncomputable def zeroInfMap (x : ℝ) : ℝ := 1 - log (1 - x) / log 2

theorem zeroInfMap_hasDerivAt (x : ℝ) (hx : x < 1) :
    HasDerivAt zeroInfMap (1 / (log 2 * (1 - x))) x := by
  have hl : log 2 ≠ 0 := log_two_pos.ne'
  have h1 : (1 - x) ≠ 0 := by linarith
  have := ((((hasDerivAt_id' x).const_sub 1).log h1).div_const (log 2)).const_sub 1
  have e : 1 / (log 2 * (1 - x)) = -(-1 / (1 - x) / log 2) := by field_simp
  rw [e]
  exact this

theorem zeroInfMap_image : zeroInfMap '' Ioo (-1) 1 = Ioi 0 := by
  have hl := log_two_pos
  ext y
  simp only [mem_image, mem_Ioo, mem_Ioi]
  constructor
  · rintro ⟨x, ⟨hx1, hx2⟩, rfl⟩
    have h1 : log (1 - x) < log 2 := log_lt_log (by linarith) (by linarith)
    have : log (1 - x) / log 2 < 1 := by rw [div_lt_one hl]; exact h1
    unfold zeroInfMap; linarith
  · intro hy
    refine ⟨1 - exp ((1 - y) * log 2), ⟨?_, ?_⟩, ?_⟩
    · have : exp ((1 - y) * log 2) < exp (log 2) := exp_lt_exp.2 (by nlinarith)
      rw [exp_log (by norm_num)] at this
      linarith
    · have := exp_pos ((1 - y) * log 2)
      linarith
    · unfold zeroInfMap
      rw [sub_sub_cancel, log_exp]
      field_simp
      ring

theorem zeroInfMap_injOn : InjOn zeroInfMap (Ioo (-1) 1) := by
  intro x hx y hy h
  have hl := log_two_pos.ne'
  unfold zeroInfMap at h
  have h1 : log (1 - x) = log (1 - y) := by
    have : log (1 - x) / log 2 = log (1 - y) / log 2 := by linarith
    field_simp at this
    exact this
  have := log_injOn_pos (by simp only [mem_Ioi]; linarith [hx.2]) (by simp only [mem_Ioi]; linarith [hy.2]) h1
  linarith

/-- ∫_0^∞ g(r) dr = ∫_{-1}^{1} g(1 − log(1−x)/log 2) / (log 2 · (1−x)) dx -/
theorem zeroInf_change_of_variables (g : ℝ → ℝ) :
    ∫ r in Ioi (0 : ℝ), g r = ∫ x in (-1 : ℝ)..1, g (1 - log (1 - x) / log 2) / (log 2 * (1 - x)) := by
  have hl := log_two_pos
  rw [intervalIntegral.integral_of_le (by norm_num), integral_Ioc_eq_integral_Ioo, ← zeroInfMap_image,
    integral_image_eq_integral_abs_deriv_smul measurableSet_Ioo
      (fun x hx => (zeroInfMap_hasDerivAt x hx.2).hasDerivWithinAt) zeroInfMap_injOn]
  apply setIntegral_congr_fun measurableSet_Ioo
  intro x hx
  have : 0 < log 2 * (1 - x) := mul_pos hl (by linarith [hx.2])
  simp only [smul_eq_mul, zeroInfMap]
  rw [abs_of_pos (by positivity)]
  ring

theorem zeroInf_integrable_iff (g : ℝ → ℝ) :
    IntegrableOn g (Ioi 0) ↔
      IntervalIntegrable (fun x => g (1 - log (1 - x) / log 2) / (log 2 * (1 - x))) volume (-1) 1 := by
  have hl := log_two_pos
  rw [intervalIntegrable_iff_integrableOn_Ioo_of_le (by norm_num), ← zeroInfMap_image,
    integrableOn_image_iff_integrableOn_abs_deriv_smul measurableSet_Ioo
      (fun x hx => (zeroInfMap_hasDerivAt x hx.2).hasDerivWithinAt) zeroInfMap_injOn]
  apply integrableOn_congr_fun _ measurableSet_Ioo
  intro x hx
  have : 0 < log 2 * (1 - x) := mul_pos hl (by linarith [hx.2])
  simp only [smul_eq_mul, zeroInfMap]
  rw [abs_of_pos (by positivity)]
  ring

/-- the interior nodes lie strictly inside (−1, 1) (so `1 − x_i ≠ 0` in `transformZeroInf`) -/
theorem xOf_theta_mem_Ioo (n i : ℕ) (h0 : 0 < i) (hi : i ≤ n) : xOf (theta n i) ∈ Ioo (-1) 1 := by
  have hn : (0 : ℝ) < (n : ℝ) + 1 := by positivity
  have hm := theta_mem n i (by omega)
  have h0' : (0 : ℝ) < i := by exact_mod_cast h0
  have hi' : (i : ℝ) ≤ n := by exact_mod_cast hi
  have hpos : 0 < theta n i := by unfold theta; positivity
  have hlt : theta n i < π := by
    unfold theta
    rw [div_lt_iff₀ hn]
    nlinarith [pi_pos]
  constructor
  · rw [← xOf_pi]
    exact xOf_strictAntiOn hm ⟨pi_pos.le, le_refl _⟩ hlt
  · rw [← xOf_zero]
    exact xOf_strictAntiOn ⟨le_refl _, pi_pos.le⟩ hm hpos

/-- what the grid computes after `transformZeroInf` (x_i ↦ φ(x_i), w_i ↦ w_i/(ln 2·(1 − x_i))) is the original rule
applied to the transformed integrand -/
theorem T_zeroInf (g : ℝ → ℝ) (n : ℕ) :
    ∑ i ∈ Finset.range n, Ecpint.Quad.nodeW (sin (theta n (i + 1))) / (log 2 * (1 - xOf (theta n (i + 1))))
        * g (zeroInfMap (xOf (theta n (i + 1))))
      = T (fun x => g (zeroInfMap x) / (log 2 * (1 - x))) n := by
  simp only [T, term]
  apply Finset.sum_congr rfl
  intro i _
  ring

/-- convergence on the half line: if the transformed integrand extends continuously to [−1, 1] (g must decay faster
than 2^(−r)), the rule applied to it tends to ∫_0^∞ g -/
theorem zeroInf_rule_tendsto (g F : ℝ → ℝ) (hF : Continuous F)
    (hFg : ∀ x ∈ Ioo (-1 : ℝ) 1, F x = g (zeroInfMap x) / (log 2 * (1 - x))) :
    Tendsto (fun n : ℕ => rule F n) atTop (𝓝 (∫ r in Ioi (0 : ℝ), g r)) := by
  have h := rule_tendsto_integral F hF
  have e : ∫ x in (-1 : ℝ)..1, F x = ∫ r in Ioi (0 : ℝ), g r := by
    rw [zeroInf_change_of_variables, intervalIntegral.integral_of_le (by norm_num),
      intervalIntegral.integral_of_le (by norm_num), integral_Ioc_eq_integral_Ioo, integral_Ioc_eq_integral_Ioo]
    exact setIntegral_congr_fun measurableSet_Ioo hFg
  rw [← e]
  exact h

end Ecpint.C15b
