/- C03 — root of the property's theorems:
   C03   the second-derivative assembly for every angular momentum over any commutative ring (guards, clamps, 45-matrix layout,
         translational sum rules of the assembled matrices)
   C03b  the analysis it rests on: d²/dA² of a primitive Gaussian = the l−2 / l / l+2 combination with the code's coefficients;
         the model routines leftFirst / leftSecond / mixedSecond fed the shifted-shell blocks ARE the partial derivatives of the
         3-D primitive, for every angular momentum; translation invariance ⇒ ∂_C = −(∂_A + ∂_B) and the Hessian sum rules
         (Fréchet derivatives on any normed space); symmetry of mixed partials; differentiation under the integral sign for the
         Gaussian-weighted model integral (first and second order) -/
import Ecpint.Props.C03
import Ecpint.Props.C03b
