/- C01 — shell-pair integrals.  Root of the property's theorems:
   C01a  index sets of the loops of the pipeline model (core Lean only)
   C01b  Cartesian enumeration and ordering, binomial shift = (X − A)^a, the GAMMA table against Γ((i+1)/2),
         the Gaussian moment integral behind the both-on-centre closed form (Mathlib)
   C01c  the parity shortcuts are lossless: the type-2 table vanishes unless a + b = k + l + m (mod 2) (from the write
         pattern of the type-1 table), hence the stride-2 loop over lam2 equals the full double sum
   C01d  the special routine for a shell on the ECP centre is the general contraction specialised (C_A = indicator, only
         l1 = 0 radials, S_00 constant, 16π²·S_00 = 8π√π)
   C01e  the strided (lam, mu) loops of type 1 visit exactly the entries of the type-1 table that makeW writes
   C01f  hence the strided double loop of type 1 equals the full double sum over all table entries (lossless)
   C01g  three-dimensional binomial shift over exactly the index triples the contractions visit
   C12Cases  (shared with C12) every closed-form radial case of the working tree equals the recurrence it was generated from - an
         edited coefficient in radial_gen.cpp changes whole blocks, so the case theorems are obligations of this property too
   The contraction algebra shared with C07/C09 is in Props/C07.lean and Props/C09.lean. -/
import Ecpint.Props.C01a
import Ecpint.Props.C01b
import Ecpint.Props.C01c
import Ecpint.Props.C01d
import Ecpint.Props.C01e
import Ecpint.Props.C01f
import Ecpint.Props.C01g
import Ecpint.Props.C12Cases
