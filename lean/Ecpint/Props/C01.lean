/- C01 — shell-pair integrals.  Root of the property's theorems:
   C01a  index sets of the loops of the pipeline model (core Lean only)
   C01b  Cartesian enumeration and ordering, binomial shift = (X − A)^a, the GAMMA table against Γ((i+1)/2),
         the Gaussian moment integral behind the both-on-centre closed form (Mathlib)
   The contraction algebra shared with C07/C09 is in Props/C07.lean and Props/C09.lean. -/
import Ecpint.Props.C01a
import Ecpint.Props.C01b
