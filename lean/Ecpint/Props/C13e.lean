/- C13 (part e) — harmonic homogeneous polynomials are orthogonal, on the unit sphere, to every polynomial of lower degree;
   the model's S_{lam, mu} (Cartesian coefficients `uklm`) are harmonic; hence the type-1 / type-2 angular tables of
   `AngularIntegral` are the sphere integrals for ALL their entries (C13d needs the triangle condition). -/
import Ecpint.Props.C13d
import Mathlib.RingTheory.MvPolynomial.EulerIdentity
import Mathlib.Topology.Algebra.MvPolynomial
import Mathlib.Analysis.SpecialFunctions.Complex.Arg

namespace Ecpint.C13e
open MeasureTheory Set Metric Real MvPolynomial
open Ecpint Ecpint.Angular Ecpint.C13 Ecpint.C13c Ecpint.C13d

/-! ### Part A: the abstract orthogonality theorem -/

/-- polynomials in x, y, z -/
abbrev P3 := MvPolynomial (Fin 3) ℝ

/-- the Laplacian -/
noncomputable def lap (p : P3) : P3 := ∑ i : Fin 3, pderiv i (pderiv i p)

theorem pderiv_comm (i j : Fin 3) (p : P3) : pderiv i (pderiv j p) = pderiv j (pderiv i p) := by
  by_cases hij : i = j
  · rw [hij]
  ext m
  simp only [coeff_pderiv, Finsupp.add_apply, Finsupp.single_apply, if_neg hij, if_neg (Ne.symm hij), add_zero]
  rw [add_right_comm m]
  ring

theorem lap_pderiv (i : Fin 3) (p : P3) : lap (pderiv i p) = pderiv i (lap p) := by
  unfold lap
  rw [map_sum]
  exact Finset.sum_congr rfl fun j _ => by rw [pderiv_comm j i, pderiv_comm j i]

/-- a linear functional with the divergence-theorem property of the sphere integral
((d+2) ∫_S x_i p = ∫_S ∂_i p for p homogeneous of degree d) kills (lower degree) × (harmonic) -/
theorem orth_abstract (L : P3 →ₗ[ℝ] ℝ)
    (hL : ∀ (d : ℕ) (p : P3), p.IsHomogeneous d → ∀ i, ((d : ℝ) + 2) * L (X i * p) = L (pderiv i p)) :
    ∀ m n : ℕ, m < n → ∀ h p : P3, h.IsHomogeneous n → lap h = 0 → p.IsHomogeneous m → L (p * h) = 0 := by
  -- L ∘ Δ = (d + 1) d L on homogeneous polynomials of degree d ≥ 1
  have hlapL : ∀ (d : ℕ) (p : P3), p.IsHomogeneous (d + 1) → L (lap p) = ((d : ℝ) + 2) * ((d : ℝ) + 1) * L p := by
    intro d p hp
    unfold lap
    rw [map_sum]
    have h1 : ∀ i : Fin 3, L (pderiv i (pderiv i p)) = ((d : ℝ) + 2) * L (X i * pderiv i p) := fun i =>
      (hL d (pderiv i p) (by simpa using hp.pderiv (i := i)) i).symm
    simp only [h1]
    rw [← Finset.mul_sum, ← map_sum, hp.sum_X_mul_pderiv, map_nsmul]
    simp only [nsmul_eq_mul]
    push_cast
    ring
  intro m
  induction m using Nat.strong_induction_on with
  | _ m ih =>
  intro n hmn h p hh hlap hp
  rcases m with _ | m
  · -- p is a constant
    obtain ⟨n', rfl⟩ : ∃ n', n = n' + 1 := ⟨n - 1, by omega⟩
    have hLh : L h = 0 := by
      have := hlapL n' h hh
      rw [hlap, map_zero] at this
      have hne : ((n' : ℝ) + 2) * ((n' : ℝ) + 1) ≠ 0 := by positivity
      exact (mul_eq_zero.mp this.symm).resolve_left hne
    rw [← totalDegree_zero_iff_isHomogeneous, totalDegree_eq_zero_iff_eq_C] at hp
    rw [hp, C_mul', map_smul, hLh, smul_zero]
  · -- Euler's identity for p, then the divergence property
    have hE := hp.sum_X_mul_pderiv
    have h1 : ((m : ℝ) + 1) * L (p * h) = ∑ i : Fin 3, L (X i * (pderiv i p * h)) := by
      have : ((m + 1 : ℕ) • p) * h = ∑ i : Fin 3, X i * (pderiv i p * h) := by
        rw [← hE, Finset.sum_mul]
        exact Finset.sum_congr rfl fun i _ => by ring
      rw [← map_sum, ← this, smul_mul_assoc, map_nsmul]
      simp only [nsmul_eq_mul]
      push_cast
      ring
    have h2 : ∀ i : Fin 3, L (X i * (pderiv i p * h)) = 0 := by
      intro i
      have hpi : (pderiv i p).IsHomogeneous m := by simpa using hp.pderiv (i := i)
      have hq : (pderiv i p * h).IsHomogeneous (m + n) := hpi.mul hh
      have h3 := hL (m + n) _ hq i
      rw [pderiv_mul, map_add] at h3
      have t1 : L (pderiv i (pderiv i p) * h) = 0 :=
        ih (m - 1) (by omega) n (by omega) h _ hh hlap hpi.pderiv
      have t2 : L (pderiv i p * pderiv i h) = 0 :=
        ih m (by omega) (n - 1) (by omega) _ _ hh.pderiv (by rw [lap_pderiv, hlap, map_zero]) hpi
      rw [t1, t2, add_zero] at h3
      have hne : (((m + n : ℕ) : ℝ) + 2) ≠ 0 := by positivity
      exact (mul_eq_zero.mp h3).resolve_left hne
    simp only [h2, Finset.sum_const_zero] at h1
    have hne : ((m : ℝ) + 1) ≠ 0 := by positivity
    exact (mul_eq_zero.mp h1).resolve_left hne

/-! the sphere integral has the divergence property (checked on monomials with the closed form) -/

open scoped Nat

theorem monoInt_shift0 (a b c : ℕ) :
    (((a + b + c : ℕ) : ℝ) + 2) * monoInt (a + 1) b c = (a : ℝ) * monoInt (a - 1) b c := by
  rw [monoInt_closed, monoInt_closed]
  by_cases hbc : b % 2 = 0 ∧ c % 2 = 0
  · by_cases ha : a % 2 = 1
    · obtain ⟨i, rfl⟩ : ∃ i, a = 2 * i + 1 := ⟨a / 2, by omega⟩
      rw [if_pos ⟨by omega, hbc⟩, if_pos ⟨by omega, hbc⟩]
      have e1 : 2 * i + 1 + 1 + b + c + 1 = (2 * i + b + c + 1) + 2 := by omega
      have e2 : 2 * i + 1 - 1 + b + c + 1 = 2 * i + b + c + 1 := by omega
      have e3 : (2 * i + 1 + 1 - 1)‼ = (2 * i + 1) * (2 * i + 1 - 1 - 1)‼ := by
        rcases i with _ | j
        · simp
        · have : 2 * (j + 1) + 1 + 1 - 1 = (2 * j + 1) + 2 := by omega
          rw [this, Nat.doubleFactorial_add_two]
          have : 2 * (j + 1) + 1 - 1 - 1 = 2 * j + 1 := by omega
          rw [this]
          ring
      rw [e1, e2, e3, Nat.doubleFactorial_add_two]
      have hd : (((2 * i + b + c + 1)‼ : ℕ) : ℝ) ≠ 0 :=
        Nat.cast_ne_zero.mpr (Nat.pos_iff_ne_zero.mp (Nat.doubleFactorial_pos _))
      push_cast
      field_simp
      ring
    · rw [if_neg (by omega)]
      rcases Nat.eq_zero_or_pos a with h0 | h0
      · subst h0; simp
      · rw [if_neg (by omega)]; simp
  · rw [if_neg (by omega), if_neg (by omega)]; simp

theorem monoInt_swap01 (a b c : ℕ) : monoInt a b c = monoInt b a c := by
  rw [monoInt_closed, monoInt_closed]
  have e : b + a + c + 1 = a + b + c + 1 := by omega
  rw [e, Nat.mul_comm (b - 1)‼ (a - 1)‼]
  by_cases h : a % 2 = 0 ∧ b % 2 = 0 ∧ c % 2 = 0
  · rw [if_pos h, if_pos ⟨h.2.1, h.1, h.2.2⟩]
  · rw [if_neg h, if_neg (by tauto)]

theorem monoInt_swap02 (a b c : ℕ) : monoInt a b c = monoInt c b a := by
  rw [monoInt_closed, monoInt_closed]
  have e : c + b + a + 1 = a + b + c + 1 := by omega
  have e2 : (c - 1)‼ * (b - 1)‼ * (a - 1)‼ = (a - 1)‼ * (b - 1)‼ * (c - 1)‼ := by ring
  rw [e, e2]
  by_cases h : a % 2 = 0 ∧ b % 2 = 0 ∧ c % 2 = 0
  · rw [if_pos h, if_pos ⟨h.2.2, h.2.1, h.1⟩]
  · rw [if_neg h, if_neg (by tauto)]

theorem monoInt_shift1 (a b c : ℕ) :
    (((a + b + c : ℕ) : ℝ) + 2) * monoInt a (b + 1) c = (b : ℝ) * monoInt a (b - 1) c := by
  rw [monoInt_swap01 a (b + 1) c, monoInt_swap01 a (b - 1) c, ← monoInt_shift0]
  congr 3; omega

theorem monoInt_shift2 (a b c : ℕ) :
    (((a + b + c : ℕ) : ℝ) + 2) * monoInt a b (c + 1) = (c : ℝ) * monoInt a b (c - 1) := by
  rw [monoInt_swap02 a b (c + 1), monoInt_swap02 a b (c - 1), ← monoInt_shift0]
  congr 3; omega

/-- evaluation at a point of the sphere -/
noncomputable def evS (u : sphere (0 : E3) 1) (p : P3) : ℝ := eval (fun i => u.1 i) p

theorem continuous_evS (p : P3) : Continuous fun u : sphere (0 : E3) 1 => evS u p := by
  unfold evS
  exact (MvPolynomial.continuous_eval p).comp (continuous_pi fun i => by fun_prop)

/-- the sphere integral as a linear functional on polynomials -/
noncomputable def sphereL : P3 →ₗ[ℝ] ℝ where
  toFun p := ∫ u : sphere (0 : E3) 1, evS u p ∂σ
  map_add' p q := by
    simp only [evS, map_add]
    exact integral_add (integrable_of_continuous (continuous_evS p)) (integrable_of_continuous (continuous_evS q))
  map_smul' c p := by
    simp only [evS, smul_eval, RingHom.id_apply, smul_eq_mul]
    exact integral_const_mul _ _

theorem evS_monomial (u : sphere (0 : E3) 1) (s : Fin 3 →₀ ℕ) (c : ℝ) :
    evS u (monomial s c) = c * mono (s 0) (s 1) (s 2) u.1 := by
  unfold evS mono
  rw [eval_monomial, Finsupp.prod_fintype _ _ (fun i => pow_zero _), Fin.prod_univ_three]

theorem sphereL_monomial (s : Fin 3 →₀ ℕ) (c : ℝ) : sphereL (monomial s c) = c * monoInt (s 0) (s 1) (s 2) := by
  show ∫ u : sphere (0 : E3) 1, evS u (monomial s c) ∂σ = _
  simp only [evS_monomial]
  rw [integral_const_mul]
  rfl

theorem degree_fin3 (v : Fin 3 →₀ ℕ) : Finsupp.weight (1 : Fin 3 → ℕ) v = v 0 + v 1 + v 2 := by
  rw [Finsupp.weight_apply, Finsupp.sum_fintype _ _ (fun i => by simp), Fin.sum_univ_three]
  simp

/-- the divergence theorem on monomials: (d + 2) ∫_S x_i p = ∫_S ∂_i p for p homogeneous of degree d -/
theorem sphereL_div (d : ℕ) (p : P3) (hp : p.IsHomogeneous d) (i : Fin 3) :
    ((d : ℝ) + 2) * sphereL (X i * p) = sphereL (pderiv i p) := by
  have key : ∀ v ∈ p.support, ((d : ℝ) + 2) * sphereL (X i * monomial v (coeff v p))
      = sphereL (pderiv i (monomial v (coeff v p))) := by
    intro v hv
    have hdeg : v 0 + v 1 + v 2 = d := by
      rw [← degree_fin3]; exact hp (mem_support_iff.mp hv)
    have e : X i * monomial v (coeff v p) = monomial (Finsupp.single i 1 + v) (coeff v p) := by
      rw [monomial_single_add, pow_one]
    rw [e, pderiv_monomial, sphereL_monomial, sphereL_monomial]
    have s0 := monoInt_shift0 (v 0) (v 1) (v 2)
    have s1 := monoInt_shift1 (v 0) (v 1) (v 2)
    have s2 := monoInt_shift2 (v 0) (v 1) (v 2)
    rw [hdeg] at s0 s1 s2
    fin_cases i
    · simp only [Fin.zero_eta, Fin.isValue, Finsupp.add_apply, Finsupp.single_apply, Finsupp.tsub_apply]
      simp
      rw [add_comm 1 (v 0)]
      linear_combination (coeff v p) * s0
    · simp only [Fin.mk_one, Fin.isValue, Finsupp.add_apply, Finsupp.single_apply, Finsupp.tsub_apply]
      simp
      rw [add_comm 1 (v 1)]
      linear_combination (coeff v p) * s1
    · simp only [Fin.reduceFinMk, Fin.isValue, Finsupp.add_apply, Finsupp.single_apply, Finsupp.tsub_apply]
      simp
      rw [add_comm 1 (v 2)]
      linear_combination (coeff v p) * s2
  calc ((d : ℝ) + 2) * sphereL (X i * p)
      = ((d : ℝ) + 2) * sphereL (X i * ∑ v ∈ p.support, monomial v (coeff v p)) := by
        rw [support_sum_monomial_coeff]
    _ = ∑ v ∈ p.support, ((d : ℝ) + 2) * sphereL (X i * monomial v (coeff v p)) := by
        rw [Finset.mul_sum, map_sum, Finset.mul_sum]
    _ = ∑ v ∈ p.support, sphereL (pderiv i (monomial v (coeff v p))) := Finset.sum_congr rfl key
    _ = sphereL (pderiv i (∑ v ∈ p.support, monomial v (coeff v p))) := by rw [map_sum, map_sum]
    _ = _ := by rw [support_sum_monomial_coeff]

/-- **a harmonic homogeneous polynomial of degree n is orthogonal, on the unit sphere, to every homogeneous polynomial of
lower degree** -/
theorem sphere_orth (m n : ℕ) (hmn : m < n) (h p : P3) (hh : h.IsHomogeneous n) (hlap : lap h = 0)
    (hp : p.IsHomogeneous m) : ∫ u : sphere (0 : E3) 1, evS u p * evS u h ∂σ = 0 := by
  have := orth_abstract sphereL sphereL_div m n hmn h p hh hlap hp
  simpa [sphereL, evS] using this

/-! ### Part B: the solid harmonics in factored form are harmonic polynomials -/

/-- (Re, Im) of (x + i y)^mu as polynomials -/
noncomputable def AcAs : ℕ → P3 × P3
  | 0 => (1, 0)
  | mu + 1 => (X 0 * (AcAs mu).1 - X 1 * (AcAs mu).2, X 0 * (AcAs mu).2 + X 1 * (AcAs mu).1)

noncomputable def Ac (mu : ℕ) : P3 := (AcAs mu).1
noncomputable def As (mu : ℕ) : P3 := (AcAs mu).2

theorem Ac_zero : Ac 0 = 1 := rfl
theorem As_zero : As 0 = 0 := rfl
theorem Ac_succ (mu : ℕ) : Ac (mu + 1) = X 0 * Ac mu - X 1 * As mu := rfl
theorem As_succ (mu : ℕ) : As (mu + 1) = X 0 * As mu + X 1 * Ac mu := rfl

/-- Cauchy–Riemann -/
theorem AcAs_deriv (mu : ℕ) :
    pderiv 0 (Ac (mu + 1)) = C ((mu : ℝ) + 1) * Ac mu ∧ pderiv 1 (Ac (mu + 1)) = - (C ((mu : ℝ) + 1) * As mu) ∧
    pderiv 0 (As (mu + 1)) = C ((mu : ℝ) + 1) * As mu ∧ pderiv 1 (As (mu + 1)) = C ((mu : ℝ) + 1) * Ac mu := by
  induction mu with
  | zero =>
    simp [Ac_succ, As_succ, Ac_zero, As_zero]
  | succ mu ih =>
    obtain ⟨h1, h2, h3, h4⟩ := ih
    have hne : (1 : Fin 3) ≠ 0 := by decide
    have hne' : (0 : Fin 3) ≠ 1 := by decide
    refine ⟨?_, ?_, ?_, ?_⟩
    · rw [Ac_succ (mu + 1), map_sub, pderiv_mul, pderiv_mul, h1, h3, pderiv_X_self, pderiv_X_of_ne hne]
      rw [Ac_succ mu]
      simp only [C_add, C_1, Nat.cast_add, Nat.cast_one]
      ring
    · rw [Ac_succ (mu + 1), map_sub, pderiv_mul, pderiv_mul, h2, h4, pderiv_X_self, pderiv_X_of_ne hne']
      rw [As_succ mu]
      simp only [C_add, C_1, Nat.cast_add, Nat.cast_one]
      ring
    · rw [As_succ (mu + 1), map_add, pderiv_mul, pderiv_mul, h1, h3, pderiv_X_self, pderiv_X_of_ne hne]
      rw [As_succ mu]
      simp only [C_add, C_1, Nat.cast_add, Nat.cast_one]
      ring
    · rw [As_succ (mu + 1), map_add, pderiv_mul, pderiv_mul, h2, h4, pderiv_X_self, pderiv_X_of_ne hne']
      rw [Ac_succ mu]
      simp only [C_add, C_1, Nat.cast_add, Nat.cast_one]
      ring

theorem AcAs_deriv2 (mu : ℕ) : pderiv 2 (Ac mu) = 0 ∧ pderiv 2 (As mu) = 0 := by
  induction mu with
  | zero => simp [Ac_zero, As_zero]
  | succ mu ih =>
    have h0 : (0 : Fin 3) ≠ 2 := by decide
    have h1 : (1 : Fin 3) ≠ 2 := by decide
    rw [Ac_succ, As_succ]
    simp [ih.1, ih.2, pderiv_X_of_ne h0, pderiv_X_of_ne h1]

theorem AcAs_hom (mu : ℕ) : (Ac mu).IsHomogeneous mu ∧ (As mu).IsHomogeneous mu := by
  induction mu with
  | zero => exact ⟨isHomogeneous_one _ _, isHomogeneous_zero _ _ _⟩
  | succ mu ih =>
    rw [Ac_succ, As_succ]
    have hx : ∀ i : Fin 3, (X i : P3).IsHomogeneous 1 := fun i => isHomogeneous_X _ _
    refine ⟨?_, ?_⟩
    · have := ((hx 0).mul ih.1).sub ((hx 1).mul ih.2)
      rwa [Nat.add_comm 1 mu] at this
    · have := ((hx 0).mul ih.2).add ((hx 1).mul ih.1)
      rwa [Nat.add_comm 1 mu] at this

theorem lap_AcAs (mu : ℕ) : lap (Ac mu) = 0 ∧ lap (As mu) = 0 := by
  rcases mu with _ | mu
  · simp [lap, Ac_zero, As_zero]
  · obtain ⟨h1, h2, h3, h4⟩ := AcAs_deriv mu
    obtain ⟨h5, h6⟩ := AcAs_deriv2 (mu + 1)
    unfold lap
    rw [Fin.sum_univ_three, Fin.sum_univ_three, h1, h2, h3, h4, h5, h6]
    rcases mu with _ | mu
    · simp [Ac_zero, As_zero]
    · obtain ⟨g1, g2, g3, g4⟩ := AcAs_deriv mu
      simp only [map_neg, pderiv_mul, pderiv_C, g1, g2, g3, g4, map_zero]
      constructor <;> ring

theorem lap_mul (f g : P3) :
    lap (f * g) = lap f * g + 2 * ∑ k : Fin 3, pderiv k f * pderiv k g + f * lap g := by
  unfold lap
  simp only [pderiv_mul, map_add, Fin.sum_univ_three]
  ring

/-- r² -/
noncomputable def Rsq : P3 := X 0 ^ 2 + X 1 ^ 2 + X 2 ^ 2

theorem Rsq_hom : Rsq.IsHomogeneous 2 := by
  unfold Rsq
  exact (((isHomogeneous_X _ _).pow 2).add ((isHomogeneous_X _ _).pow 2)).add ((isHomogeneous_X _ _).pow 2)

theorem pderiv_Rsq (k : Fin 3) : pderiv k Rsq = 2 * X k := by
  unfold Rsq
  fin_cases k <;> simp

theorem lap_Rsq : lap Rsq = 6 := by
  unfold lap
  simp only [pderiv_Rsq, pderiv_mul, pderiv_X_self, Fin.sum_univ_three]
  have h2 : ∀ k : Fin 3, pderiv k (2 : P3) = 0 := fun k => by
    rw [← map_ofNat (C (σ := Fin 3) (R := ℝ)) 2]; exact pderiv_C
  simp only [h2]
  ring

theorem lap_Rsq_mul (H : P3) (e : ℕ) (hH : H.IsHomogeneous e) :
    lap (Rsq * H) = (6 + 4 * (e : P3)) * H + Rsq * lap H := by
  rw [lap_mul, lap_Rsq]
  have hE := hH.sum_X_mul_pderiv
  have : ∑ k : Fin 3, pderiv k Rsq * pderiv k H = 2 * ((e : P3) * H) := by
    simp only [pderiv_Rsq, mul_assoc]
    rw [← Finset.mul_sum, hE, nsmul_eq_mul]
  rw [this]
  ring

theorem lap_Rpow_mul (G : P3) (d : ℕ) (hG : G.IsHomogeneous d) (i : ℕ) :
    lap (Rsq ^ i * G) = (2 * (i : P3) * (2 * i + 2 * d + 1)) * (Rsq ^ (i - 1) * G) + Rsq ^ i * lap G := by
  induction i with
  | zero => simp
  | succ i ih =>
    have hH : (Rsq ^ i * G).IsHomogeneous (2 * i + d) := (Rsq_hom.pow i).mul hG
    rw [pow_succ', mul_assoc, lap_Rsq_mul _ _ hH, ih]
    rcases i with _ | i
    · simp only [Nat.cast_zero, mul_zero, zero_mul, zero_add, pow_zero, one_mul, zero_tsub, Nat.cast_one,
        mul_one]
      ring
    · simp only [Nat.add_sub_cancel, pow_succ']
      push_cast
      ring

theorem pderiv_ofNat (k : Fin 3) (n : ℕ) : pderiv k (n : P3) = 0 := by
  rw [← map_natCast (C (σ := Fin 3) (R := ℝ)) n]; exact pderiv_C

theorem lap_Zpow_mul (A : P3) (hA2 : pderiv 2 A = 0) (hlap : lap A = 0) (q : ℕ) :
    lap (X 2 ^ q * A) = ((q : P3) * ((q : P3) - 1)) * (X 2 ^ (q - 2) * A) := by
  rw [lap_mul, hlap, mul_zero, add_zero]
  have h0 : (2 : Fin 3) ≠ 0 := by decide
  have h1 : (2 : Fin 3) ≠ 1 := by decide
  have d0 : pderiv 0 (X 2 ^ q : P3) = 0 := by rw [pderiv_pow, pderiv_X_of_ne h0, mul_zero]
  have d1 : pderiv 1 (X 2 ^ q : P3) = 0 := by rw [pderiv_pow, pderiv_X_of_ne h1, mul_zero]
  have d2 : pderiv 2 (X 2 ^ q : P3) = (q : P3) * X 2 ^ (q - 1) := by rw [pderiv_pow, pderiv_X_self, mul_one]
  unfold lap
  rw [Fin.sum_univ_three, Fin.sum_univ_three, d0, d1, d2, hA2]
  simp only [map_zero, pderiv_mul, pderiv_ofNat, pderiv_pow, pderiv_X_self]
  rcases q with _ | _ | q
  · simp
  · simp
  · simp only [Nat.add_sub_cancel, show q + 1 + 1 - 2 = q by omega]
    push_cast
    ring

/-- the coefficients of the Legendre part: (-1)^i C(lam, i) (2 lam − 2i)! / (lam − mu − 2i)! -/
noncomputable def alpha (lam mu i : ℕ) : ℝ :=
  (lam ! : ℝ) / ((i ! : ℝ) * ((lam - i)! : ℝ)) *
    ((1 - 2 * ((i % 2 : ℕ) : ℝ)) * ((2 * (lam - i))! : ℝ) / ((lam - mu - 2 * i)! : ℝ))

theorem alpha_rec (lam mu i : ℕ) (h : 2 * (i + 1) ≤ lam - mu) :
    alpha lam mu (i + 1) * (2 * ((i : ℝ) + 1) * (2 * (lam : ℝ) - 2 * i - 1))
      + alpha lam mu i * (((lam - mu - 2 * i : ℕ) : ℝ) * (((lam - mu - 2 * i : ℕ) : ℝ) - 1)) = 0 := by
  obtain ⟨n, hn⟩ : ∃ n, lam = n + i + 1 := ⟨lam - i - 1, by omega⟩
  obtain ⟨q, hq⟩ : ∃ q, lam - mu - 2 * i = q + 2 := ⟨lam - mu - 2 * i - 2, by omega⟩
  have e1 : lam - mu - 2 * (i + 1) = q := by omega
  have e3 : lam - (i + 1) = n := by omega
  have e4 : lam - i = n + 1 := by omega
  have e5 : 2 * (n + 1) = 2 * n + 1 + 1 := by omega
  have hs : ((((i + 1) % 2 : ℕ) : ℝ)) = 1 - ((i % 2 : ℕ) : ℝ) := by
    rcases Nat.mod_two_eq_zero_or_one i with h0 | h0
    · rw [h0, show (i + 1) % 2 = 1 by omega]; simp
    · rw [h0, show (i + 1) % 2 = 0 by omega]; simp
  unfold alpha
  rw [e1, hq, e3, e4, e5, hs]
  have hl : (lam : ℝ) = n + i + 1 := by rw [hn]; push_cast; ring
  rw [hl]
  simp only [Nat.factorial_succ]
  push_cast
  have f1 : ((i ! : ℕ) : ℝ) ≠ 0 := Nat.cast_ne_zero.mpr (Nat.factorial_ne_zero _)
  have f2 : ((n ! : ℕ) : ℝ) ≠ 0 := Nat.cast_ne_zero.mpr (Nat.factorial_ne_zero _)
  have f3 : ((q ! : ℕ) : ℝ) ≠ 0 := Nat.cast_ne_zero.mpr (Nat.factorial_ne_zero _)
  have f4 : ((i : ℝ) + 1) ≠ 0 := by positivity
  have f5 : ((n : ℝ) + 1) ≠ 0 := by positivity
  have f6 : ((q : ℝ) + 1) ≠ 0 := by positivity
  have f7 : ((q : ℝ) + 1 + 1) ≠ 0 := by positivity
  field_simp
  ring

/-- the solid harmonic in factored form: Σ_i alpha_i r^{2i} z^{lam−mu−2i} · A(x, y) -/
noncomputable def Fpoly (lam mu : ℕ) (A : P3) : P3 :=
  ∑ i ∈ Finset.range ((lam - mu) / 2 + 1), C (alpha lam mu i) * (Rsq ^ i * (X 2 ^ (lam - mu - 2 * i) * A))

theorem Fpoly_hom (lam mu : ℕ) (hmu : mu ≤ lam) (A : P3) (hA : A.IsHomogeneous mu) :
    (Fpoly lam mu A).IsHomogeneous lam := by
  unfold Fpoly
  refine IsHomogeneous.sum _ _ _ fun i hi => ?_
  simp only [Finset.mem_range] at hi
  have h1 : (Rsq ^ i * (X 2 ^ (lam - mu - 2 * i) * A)).IsHomogeneous (2 * i + (1 * (lam - mu - 2 * i) + mu)) :=
    (Rsq_hom.pow i).mul (((isHomogeneous_X _ _).pow _).mul hA)
  have e : 2 * i + (1 * (lam - mu - 2 * i) + mu) = lam := by omega
  rw [e] at h1
  have := (isHomogeneous_C (Fin 3) (alpha lam mu i)).mul h1
  rwa [zero_add] at this

theorem Fpoly_lap (lam mu : ℕ) (hmu : mu ≤ lam) (A : P3) (hA : A.IsHomogeneous mu) (hA2 : pderiv 2 A = 0)
    (hlap : lap A = 0) : lap (Fpoly lam mu A) = 0 := by
  have hlin : ∀ (c : ℝ) (p : P3), lap (C c * p) = C c * lap p := by
    intro c p
    unfold lap
    simp only [pderiv_C_mul, Finset.mul_sum]
  set M := (lam - mu) / 2 with hM
  have hterm : ∀ i, i < M + 1 → lap (C (alpha lam mu i) * (Rsq ^ i * (X 2 ^ (lam - mu - 2 * i) * A)))
      = C (alpha lam mu i * (2 * (i : ℝ) * (2 * lam - 2 * i + 1))) * (Rsq ^ (i - 1) * (X 2 ^ (lam - mu - 2 * i) * A))
        + C (alpha lam mu i * (((lam - mu - 2 * i : ℕ) : ℝ) * (((lam - mu - 2 * i : ℕ) : ℝ) - 1)))
          * (Rsq ^ i * (X 2 ^ (lam - mu - 2 * i - 2) * A)) := by
    intro i hi
    have hG : (X 2 ^ (lam - mu - 2 * i) * A : P3).IsHomogeneous (lam - 2 * i) := by
      have := ((isHomogeneous_X ℝ (2 : Fin 3)).pow (lam - mu - 2 * i)).mul hA
      have e : 1 * (lam - mu - 2 * i) + mu = lam - 2 * i := by omega
      rwa [e] at this
    rw [hlin, lap_Rpow_mul _ _ hG, lap_Zpow_mul A hA2 hlap]
    have hc : (lam - 2 * i : ℕ) = (lam : ℝ) - 2 * i := by
      rw [Nat.cast_sub (by omega)]; push_cast; ring
    have c1 : (2 * (i : P3) * (2 * (i : P3) + 2 * ((lam - 2 * i : ℕ) : P3) + 1)) = C (2 * (i : ℝ) * (2 * lam - 2 * i + 1)) := by
      rw [← map_natCast (C (σ := Fin 3) (R := ℝ)) i, ← map_natCast (C (σ := Fin 3) (R := ℝ)) (lam - 2 * i), hc]
      simp only [map_mul, map_add, map_sub, map_ofNat, map_one, map_natCast]
      ring
    have c2 : ((lam - mu - 2 * i : ℕ) : P3) * (((lam - mu - 2 * i : ℕ) : P3) - 1)
        = C (((lam - mu - 2 * i : ℕ) : ℝ) * (((lam - mu - 2 * i : ℕ) : ℝ) - 1)) := by
      simp only [map_mul, map_sub, map_one, map_natCast]
    rw [c1, c2]
    simp only [map_mul]
    ring
  unfold Fpoly
  unfold lap
  simp only [map_sum]
  rw [Finset.sum_comm]
  have : ∀ i ∈ Finset.range (M + 1), ∑ k : Fin 3, pderiv k (pderiv k
      (C (alpha lam mu i) * (Rsq ^ i * (X 2 ^ (lam - mu - 2 * i) * A)))) = _ :=
    fun i hi => hterm i (Finset.mem_range.mp hi)
  rw [Finset.sum_congr rfl this, Finset.sum_add_distrib, Finset.sum_range_succ', Finset.sum_range_succ]
  -- the i = 0 term of the first sum and the i = M term of the second vanish
  have z1 : alpha lam mu 0 * (2 * ((0 : ℕ) : ℝ) * (2 * lam - 2 * ((0 : ℕ) : ℝ) + 1)) = 0 := by simp
  have z2 : alpha lam mu M * (((lam - mu - 2 * M : ℕ) : ℝ) * (((lam - mu - 2 * M : ℕ) : ℝ) - 1)) = 0 := by
    have : lam - mu - 2 * M = 0 ∨ lam - mu - 2 * M = 1 := by omega
    rcases this with h | h <;> rw [h] <;> simp
  rw [z1, z2]
  simp only [map_zero, zero_mul, add_zero]
  rw [← Finset.sum_add_distrib]
  refine Finset.sum_eq_zero fun i hi => ?_
  simp only [Finset.mem_range] at hi
  have hr := alpha_rec lam mu i (by omega)
  have e1 : lam - mu - 2 * (i + 1) = lam - mu - 2 * i - 2 := by omega
  rw [e1, Nat.add_sub_cancel, ← add_mul, ← map_add]
  have : alpha lam mu (i + 1) * (2 * ((i + 1 : ℕ) : ℝ) * (2 * (lam : ℝ) - 2 * ((i + 1 : ℕ) : ℝ) + 1)) +
      alpha lam mu i * (((lam - mu - 2 * i : ℕ) : ℝ) * (((lam - mu - 2 * i : ℕ) : ℝ) - 1)) = 0 := by
    rw [← hr]; push_cast; ring
  rw [this, map_zero, zero_mul]

/-! ### Part C: the model's Cartesian harmonics are evaluations of these polynomials -/

/-- (-1)^(p/2) as the code writes it -/
noncomputable def sg (p : ℕ) : ℝ := 1 - 2 * ((p / 2 % 2 : ℕ) : ℝ)

/-- parity selector -/
noncomputable def par (c l : ℕ) : ℝ := if l % 2 = c then 1 else 0

theorem I_pow_re_im (p : ℕ) : (Complex.I ^ p).re = sg p * par 0 p ∧ (Complex.I ^ p).im = sg p * par 1 p := by
  induction p using Nat.strong_induction_on with
  | _ p ih =>
  rcases p with _ | _ | p
  · simp [sg, par]
  · simp [sg, par]
  · obtain ⟨h1, h2⟩ := ih p (by omega)
    have e : Complex.I ^ (p + 1 + 1) = - Complex.I ^ p := by
      rw [pow_succ, pow_succ, mul_assoc, Complex.I_mul_I]; ring
    have hs : sg (p + 1 + 1) = - sg p := by
      unfold sg
      have : (p + 1 + 1) / 2 = p / 2 + 1 := by omega
      rw [this]
      rcases Nat.mod_two_eq_zero_or_one (p / 2) with h0 | h0
      · rw [h0, show (p / 2 + 1) % 2 = 1 by omega]; norm_num
      · rw [h0, show (p / 2 + 1) % 2 = 0 by omega]; norm_num
    have hp : ∀ c, par c (p + 1 + 1) = par c p := by
      intro c; unfold par
      rw [show (p + 1 + 1) % 2 = p % 2 by omega]
    rw [e, Complex.neg_re, Complex.neg_im, h1, h2, hs, hp, hp]
    constructor <;> ring

/-- Re / Im (x + i y)^mu, expanded -/
noncomputable def a2 (mu c : ℕ) (x y : ℝ) : ℝ :=
  ∑ p ∈ Finset.range (mu + 1), (mu.choose p : ℝ) * sg p * par c p * x ^ (mu - p) * y ^ p

theorem cpow_re_im (mu : ℕ) (x y : ℝ) :
    (((x : ℂ) + y * Complex.I) ^ mu).re = a2 mu 0 x y ∧ (((x : ℂ) + y * Complex.I) ^ mu).im = a2 mu 1 x y := by
  have h : ((x : ℂ) + y * Complex.I) ^ mu
      = ∑ p ∈ Finset.range (mu + 1), (((mu.choose p : ℝ) * x ^ (mu - p) * y ^ p : ℝ) : ℂ) * Complex.I ^ p := by
    rw [add_comm, add_pow]
    refine Finset.sum_congr rfl fun p _ => ?_
    push_cast
    ring
  rw [h]
  constructor
  · rw [Complex.re_sum]
    unfold a2
    refine Finset.sum_congr rfl fun p _ => ?_
    rw [Complex.re_ofReal_mul, (I_pow_re_im p).1]
    ring
  · rw [Complex.im_sum]
    unfold a2
    refine Finset.sum_congr rfl fun p _ => ?_
    rw [Complex.im_ofReal_mul, (I_pow_re_im p).2]
    ring

theorem eval_AcAs (mu : ℕ) (v : Fin 3 → ℝ) :
    eval v (Ac mu) = a2 mu 0 (v 0) (v 1) ∧ eval v (As mu) = a2 mu 1 (v 0) (v 1) := by
  rw [← (cpow_re_im mu (v 0) (v 1)).1, ← (cpow_re_im mu (v 0) (v 1)).2]
  induction mu with
  | zero => simp [Ac_zero, As_zero]
  | succ mu ih =>
    rw [Ac_succ, As_succ, pow_succ]
    simp only [map_sub, map_add, map_mul, eval_X, ih.1, ih.2, Complex.mul_re, Complex.mul_im, Complex.add_re,
      Complex.add_im, Complex.ofReal_re, Complex.ofReal_im, Complex.I_re, Complex.I_im, mul_zero, mul_one, sub_zero,
      zero_add, add_zero]
    constructor <;> ring

/-- reflect-and-shift of a range into a window of a larger range -/
theorem sum_window (ph : ℕ → ℝ) (mu a N : ℕ) (h : a + mu ≤ N) :
    ∑ k ∈ Finset.range (N + 1), (if a ≤ k ∧ k ≤ mu + a then ph (mu + a - k) else 0)
      = ∑ p ∈ Finset.range (mu + 1), ph p := by
  symm
  refine Finset.sum_bij_ne_zero (fun p _ _ => mu + a - p) ?_ ?_ ?_ ?_
  · intro p hp _
    simp only [Finset.mem_range] at hp ⊢
    omega
  · intro p1 hp1 _ p2 hp2 _ he
    simp only [Finset.mem_range] at hp1 hp2
    omega
  · intro k hk hne
    have hc : a ≤ k ∧ k ≤ mu + a := by
      by_contra hc
      exact hne (if_neg hc)
    rw [if_pos hc] at hne
    refine ⟨mu + a - k, by simp only [Finset.mem_range]; omega, hne, by omega⟩
  · intro p hp _
    simp only [Finset.mem_range] at hp
    have hc : a ≤ mu + a - p ∧ mu + a - p ≤ mu + a := by omega
    rw [if_pos hc]
    congr 1
    omega

/-- a sum over a range, supported on the arithmetic progression mu, mu + 2, … -/
theorem sum_arith (g : ℕ → ℝ) (mu lam : ℕ) (hmu : mu ≤ lam)
    (hg : ∀ d, d < lam + 1 → ¬ (mu ≤ d ∧ (d - mu) % 2 = 0) → g d = 0) :
    ∑ d ∈ Finset.range (lam + 1), g d = ∑ j ∈ Finset.range ((lam - mu) / 2 + 1), g (mu + 2 * j) := by
  symm
  refine Finset.sum_bij_ne_zero (fun j _ _ => mu + 2 * j) ?_ ?_ ?_ ?_
  · intro j hj _
    simp only [Finset.mem_range] at hj ⊢
    omega
  · intro j1 _ _ j2 _ _ he
    omega
  · intro d hd hne
    simp only [Finset.mem_range] at hd
    have hc : mu ≤ d ∧ (d - mu) % 2 = 0 := by
      by_contra hc
      exact hne (hg d hd hc)
    refine ⟨(d - mu) / 2, by simp only [Finset.mem_range]; omega, ?_, by omega⟩
    have : mu + 2 * ((d - mu) / 2) = d := by omega
    rwa [this]
  · intro j _ _
    rfl

/-- the double loop over (k, l), k + l ≤ lam, regrouped by k + l = mu + 2j -/
theorem sum_regroup (f : ℕ → ℕ → ℝ) (mu lam : ℕ) (hmu : mu ≤ lam)
    (hf : ∀ k l, ¬ (mu ≤ k + l ∧ (k + l - mu) % 2 = 0) → f k l = 0) :
    ∑ k ∈ Finset.range (lam + 1), ∑ l ∈ Finset.range (lam - k + 1), f k l
      = ∑ j ∈ Finset.range ((lam - mu) / 2 + 1), ∑ k ∈ Finset.range (mu + 2 * j + 1), f k (mu + 2 * j - k) := by
  have h1 : ∑ k ∈ Finset.range (lam + 1), ∑ l ∈ Finset.range (lam - k + 1), f k l
      = ∑ k ∈ Finset.range (lam + 1), ∑ l ∈ Finset.range (lam + 1 - k), f k l := by
    refine Finset.sum_congr rfl fun k hk => ?_
    simp only [Finset.mem_range] at hk
    rw [show lam - k + 1 = lam + 1 - k by omega]
  rw [h1, ← Finset.sum_range_diag_flip]
  refine sum_arith (fun d => ∑ k ∈ Finset.range (d + 1), f k (d - k)) mu lam hmu ?_
  intro d _ hc
  refine Finset.sum_eq_zero fun k hk => ?_
  simp only [Finset.mem_range] at hk
  apply hf
  rwa [show k + (d - k) = d by omega]

/-- the coefficient of x^k y^(mu+2j−k) in (x² + y²)^j (x + i y)^mu (before taking Re / Im), as `uklm` sums it -/
noncomputable def Bco (mu j k : ℕ) : ℝ :=
  ∑ i ∈ Finset.range (j + 1),
    if 2 * i ≤ k ∧ k ≤ mu + 2 * i then (j.choose i : ℝ) * (mu.choose (k - 2 * i) : ℝ) * sg (mu + 2 * i - k) else 0

theorem par_congr (c a b : ℕ) (h : a % 2 = b % 2) : par c a = par c b := by unfold par; rw [h]

theorem two_dim (mu c j : ℕ) (x y : ℝ) :
    (x ^ 2 + y ^ 2) ^ j * a2 mu c x y
      = ∑ k ∈ Finset.range (mu + 2 * j + 1), Bco mu j k * par c (mu + 2 * j - k) * x ^ k * y ^ (mu + 2 * j - k) := by
  rw [add_pow, Finset.sum_mul]
  unfold Bco
  simp only [Finset.sum_mul]
  rw [Finset.sum_comm]
  refine Finset.sum_congr rfl fun i hi => ?_
  simp only [Finset.mem_range] at hi
  set ph : ℕ → ℝ := fun p =>
    (j.choose i : ℝ) * ((mu.choose p : ℝ) * sg p * par c p * x ^ (mu - p) * y ^ p) * x ^ (2 * i) * y ^ (2 * (j - i)) with hph
  have hL : (x ^ 2) ^ i * (y ^ 2) ^ (j - i) * (j.choose i : ℝ) * a2 mu c x y = ∑ p ∈ Finset.range (mu + 1), ph p := by
    unfold a2
    rw [Finset.mul_sum]
    refine Finset.sum_congr rfl fun p _ => ?_
    simp only [hph, ← pow_mul]
    ring
  rw [hL, ← sum_window ph mu (2 * i) (mu + 2 * j) (by omega)]
  refine Finset.sum_congr rfl fun k hk => ?_
  simp only [Finset.mem_range] at hk
  by_cases hc : 2 * i ≤ k ∧ k ≤ mu + 2 * i
  · rw [if_pos hc, if_pos hc]
    simp only [hph]
    have e1 : mu.choose (mu + 2 * i - k) = mu.choose (k - 2 * i) := by
      rw [show mu + 2 * i - k = mu - (k - 2 * i) by omega]
      exact Nat.choose_symm (by omega)
    have e2 : par c (mu + 2 * i - k) = par c (mu + 2 * j - k) := par_congr _ _ _ (by omega)
    have e3 : x ^ k = x ^ (mu - (mu + 2 * i - k)) * x ^ (2 * i) := by
      rw [← pow_add]; congr 1; omega
    have e4 : y ^ (mu + 2 * j - k) = y ^ (mu + 2 * i - k) * y ^ (2 * (j - i)) := by
      rw [← pow_add]; congr 1; omega
    rw [e1, e2, e3, e4]
    ring
  · rw [if_neg hc, if_neg hc]
    ring

/-- the coefficient of rho^{2j} z^{lam−mu−2j} in Σ_i alpha_i (rho² + z²)^i z^{lam−mu−2i}, as `uklm` sums it -/
noncomputable def Aco (lam mu j : ℕ) : ℝ :=
  ∑ t ∈ Finset.range ((lam - mu) / 2 + 1 - j), alpha lam mu (j + t) * ((j + t).choose j : ℝ)

theorem radial (lam mu : ℕ) (hmu : mu ≤ lam) (r z : ℝ) :
    ∑ i ∈ Finset.range ((lam - mu) / 2 + 1), alpha lam mu i * ((r + z ^ 2) ^ i * z ^ (lam - mu - 2 * i))
      = ∑ j ∈ Finset.range ((lam - mu) / 2 + 1), Aco lam mu j * r ^ j * z ^ (lam - mu - 2 * j) := by
  set M := (lam - mu) / 2 with hM
  have h1 : ∀ i ∈ Finset.range (M + 1), alpha lam mu i * ((r + z ^ 2) ^ i * z ^ (lam - mu - 2 * i))
      = ∑ j ∈ Finset.range (i + 1),
          (fun j t => alpha lam mu (j + t) * ((j + t).choose j : ℝ) * r ^ j * z ^ (lam - mu - 2 * j)) j (i - j) := by
    intro i hi
    simp only [Finset.mem_range] at hi
    rw [add_pow, Finset.sum_mul, Finset.mul_sum]
    refine Finset.sum_congr rfl fun j hj => ?_
    simp only [Finset.mem_range] at hj
    have e1 : j + (i - j) = i := by omega
    have e2 : z ^ (lam - mu - 2 * j) = (z ^ 2) ^ (i - j) * z ^ (lam - mu - 2 * i) := by
      rw [← pow_mul, ← pow_add]; congr 1; omega
    simp only [e1, e2]
    ring
  have key := Finset.sum_range_diag_flip (M + 1)
    (fun j t => alpha lam mu (j + t) * ((j + t).choose j : ℝ) * r ^ j * z ^ (lam - mu - 2 * j))
  rw [Finset.sum_congr rfl h1]
  refine key.trans ?_
  refine Finset.sum_congr rfl fun j _ => ?_
  unfold Aco
  rw [Finset.sum_mul, Finset.sum_mul]

theorem calcH1_real (nf lam mu i j : ℕ) (hnf : 2 * lam < nf) (hmu : mu ≤ lam) (hi : 2 * i ≤ lam - mu) (hj : j ≤ i) :
    calcH1 (facTable (α := ℝ) nf) i j lam mu = alpha lam mu i * (i.choose j : ℝ) := by
  unfold calcH1 alpha
  simp only []
  rw [facTable_spec nf lam (by omega), facTable_spec nf j (by omega), facTable_spec nf (lam - i) (by omega),
    facTable_spec nf (i - j) (by omega), facTable_spec nf (2 * (lam - i)) (by omega),
    facTable_spec nf (lam - mu - 2 * i) (by omega), Nat.cast_choose ℝ hj]
  have f1 : ((i ! : ℕ) : ℝ) ≠ 0 := Nat.cast_ne_zero.mpr (Nat.factorial_ne_zero _)
  have f2 : ((j ! : ℕ) : ℝ) ≠ 0 := Nat.cast_ne_zero.mpr (Nat.factorial_ne_zero _)
  have f3 : (((i - j)! : ℕ) : ℝ) ≠ 0 := Nat.cast_ne_zero.mpr (Nat.factorial_ne_zero _)
  have f4 : (((lam - i)! : ℕ) : ℝ) ≠ 0 := Nat.cast_ne_zero.mpr (Nat.factorial_ne_zero _)
  have f5 : (((lam - mu - 2 * i)! : ℕ) : ℝ) ≠ 0 := Nat.cast_ne_zero.mpr (Nat.factorial_ne_zero _)
  simp only [Int.cast_sub, Int.cast_mul, Int.cast_one, Int.cast_ofNat, Int.cast_natCast]
  field_simp

theorem calcH2_real (nf mu i j k : ℕ) (hj : j < nf) (hmu : mu < nf) (hi : i ≤ j) :
    calcH2 (facTable (α := ℝ) nf) i j k mu
      = if 2 * i ≤ k ∧ k ≤ mu + 2 * i then (j.choose i : ℝ) * (mu.choose (k - 2 * i) : ℝ) * sg (mu + 2 * i - k) else 0 := by
  unfold calcH2
  by_cases hc : 2 * i ≤ k ∧ k ≤ mu + 2 * i
  · rw [if_pos ⟨hc.2, hc.1⟩, if_pos hc]
    simp only []
    rw [facTable_spec nf j hj, facTable_spec nf mu hmu, facTable_spec nf i (by omega),
      facTable_spec nf (j - i) (by omega), facTable_spec nf (k - 2 * i) (by omega),
      facTable_spec nf (mu - (k - 2 * i)) (by omega), Nat.cast_choose ℝ hi,
      Nat.cast_choose ℝ (show k - 2 * i ≤ mu by omega)]
    unfold sg
    have f1 : ((i ! : ℕ) : ℝ) ≠ 0 := Nat.cast_ne_zero.mpr (Nat.factorial_ne_zero _)
    have f2 : (((j - i)! : ℕ) : ℝ) ≠ 0 := Nat.cast_ne_zero.mpr (Nat.factorial_ne_zero _)
    have f3 : (((k - 2 * i)! : ℕ) : ℝ) ≠ 0 := Nat.cast_ne_zero.mpr (Nat.factorial_ne_zero _)
    have f4 : (((mu - (k - 2 * i))! : ℕ) : ℝ) ≠ 0 := Nat.cast_ne_zero.mpr (Nat.factorial_ne_zero _)
    push_cast
    field_simp
  · rw [if_neg (fun h => hc ⟨h.2, h.1⟩), if_neg hc]

/-- the normalisation constant `uklm` puts in front (calcG, and 1/√2 for mu = 0) -/
noncomputable def gnorm (nf lam mu : ℕ) : ℝ :=
  calcG (facTable (α := ℝ) nf) lam mu * (if mu = 0 then 1 / √2 else 1)

/-- the type of harmonic a (mu, c) slot holds: cos-type for mu = 0 or c = 0, sin-type otherwise -/
def ceff (mu c : ℕ) : ℕ := if mu = 0 ∨ c = 0 then 0 else 1

theorem uklm_real (nf lam mu k l c : ℕ) (hnf : 2 * lam < nf) (hmu : mu ≤ lam) (hkl : k + l ≤ lam) (h1 : mu ≤ k + l)
    (h2 : (k + l - mu) % 2 = 0) :
    uklm (facTable (α := ℝ) nf) lam mu k l c
      = gnorm nf lam mu * Aco lam mu ((k + l - mu) / 2) * Bco mu ((k + l - mu) / 2) k * par (ceff mu c) l := by
  unfold uklm
  simp only []
  rw [if_pos ⟨h1, h2⟩]
  set j := (k + l - mu) / 2 with hj
  have hu1 : (List.range ((lam - mu) / 2 + 1 - j)).foldl
      (fun s t => s + calcH1 (facTable (α := ℝ) nf) (j + t) j lam mu) (0 : ℝ) = Aco lam mu j := by
    rw [foldl_add_sum, zero_add]
    unfold Aco
    refine Finset.sum_congr rfl fun t ht => ?_
    simp only [Finset.mem_range] at ht
    exact calcH1_real nf lam mu (j + t) j hnf hmu (by omega) (by omega)
  have hu2 : (List.range (j + 1)).foldl
      (fun s i => s + calcH2 (facTable (α := ℝ) nf) i j k mu) (0 : ℝ) = Bco mu j k := by
    rw [foldl_add_sum, zero_add]
    unfold Bco
    refine Finset.sum_congr rfl fun i hi => ?_
    simp only [Finset.mem_range] at hi
    exact calcH2_real nf mu i j k (by omega) (by omega) (by omega)
  rw [hu1, hu2]
  unfold gnorm ceff par
  rcases Nat.mod_two_eq_zero_or_one l with hl | hl
  · by_cases hm : mu = 0
    · simp [hm, hl]
      ring
    · by_cases hc : c = 0
      · simp [hm, hc, hl]
      · simp [hm, hc, hl]
  · by_cases hm : mu = 0
    · simp [hm, hl]
    · by_cases hc : c = 0
      · simp [hm, hc, hl]
      · simp [hm, hc, hl]

theorem ceff_cases (mu c : ℕ) : ceff mu c = 0 ∨ ceff mu c = 1 := by
  unfold ceff; split_ifs <;> simp

/-- the harmonic polynomial behind the (lam, mu, c) slot of the model's coefficient table -/
noncomputable def Hpoly (nf lam mu c : ℕ) : P3 :=
  C (gnorm nf lam mu) * Fpoly lam mu (if ceff mu c = 0 then Ac mu else As mu)

theorem eval_Fpoly (lam mu : ℕ) (A : P3) (v : Fin 3 → ℝ) :
    eval v (Fpoly lam mu A) = ∑ i ∈ Finset.range ((lam - mu) / 2 + 1),
      alpha lam mu i * (((v 0 ^ 2 + v 1 ^ 2) + v 2 ^ 2) ^ i * v 2 ^ (lam - mu - 2 * i)) * eval v A := by
  unfold Fpoly Rsq
  simp only [map_sum, map_mul, map_pow, map_add, eval_C, eval_X]
  refine Finset.sum_congr rfl fun i _ => ?_
  ring

/-- **the model's Cartesian harmonic IS the evaluation of a harmonic polynomial** -/
theorem SU_eq_eval (nf lam mu c : ℕ) (hnf : 2 * lam < nf) (hmu : mu ≤ lam) (v : E3) :
    SU (uklm (facTable (α := ℝ) nf)) lam mu c v = eval (fun i => v i) (Hpoly nf lam mu c) := by
  have hA : eval (fun i => v i) (if ceff mu c = 0 then Ac mu else As mu) = a2 mu (ceff mu c) (v 0) (v 1) := by
    rcases ceff_cases mu c with h | h
    · rw [h, if_pos rfl]; exact (eval_AcAs mu _).1
    · rw [h, if_neg (by norm_num)]; exact (eval_AcAs mu _).2
  unfold Hpoly
  rw [map_mul, eval_C, eval_Fpoly, hA, ← Finset.sum_mul, radial lam mu hmu]
  unfold SU
  rw [sum_regroup (fun k l => uklm (facTable (α := ℝ) nf) lam mu k l c * v 0 ^ k * v 1 ^ l * v 2 ^ (lam - k - l)) mu lam hmu]
  · rw [Finset.sum_mul, Finset.mul_sum]
    refine Finset.sum_congr rfl fun j hj => ?_
    simp only [Finset.mem_range] at hj
    have h2d := two_dim mu (ceff mu c) j (v 0) (v 1)
    have e : gnorm nf lam mu * (Aco lam mu j * (v 0 ^ 2 + v 1 ^ 2) ^ j * v 2 ^ (lam - mu - 2 * j) *
        a2 mu (ceff mu c) (v 0) (v 1))
        = gnorm nf lam mu * Aco lam mu j * v 2 ^ (lam - mu - 2 * j) *
          ((v 0 ^ 2 + v 1 ^ 2) ^ j * a2 mu (ceff mu c) (v 0) (v 1)) := by ring
    rw [e, h2d, Finset.mul_sum]
    refine Finset.sum_congr rfl fun k hk => ?_
    simp only [Finset.mem_range] at hk
    have e1 : k + (mu + 2 * j - k) = mu + 2 * j := by omega
    have e2 : lam - k - (mu + 2 * j - k) = lam - mu - 2 * j := by omega
    rw [uklm_real nf lam mu k (mu + 2 * j - k) c hnf hmu (by omega) (by omega) (by omega), e1, e2,
      show (mu + 2 * j - mu) / 2 = j by omega]
    ring
  · intro k l hc
    by_cases hU : uklm (facTable (α := ℝ) nf) lam mu k l c = 0
    · simp only [hU, zero_mul]
    · exact absurd (let ⟨a, b, _⟩ := uklm_ne_zero _ _ _ _ _ _ hU; ⟨a, b⟩) hc

theorem Hpoly_hom (nf lam mu c : ℕ) (hmu : mu ≤ lam) : (Hpoly nf lam mu c).IsHomogeneous lam := by
  unfold Hpoly
  have hA : (if ceff mu c = 0 then Ac mu else As mu).IsHomogeneous mu := by
    split_ifs
    · exact (AcAs_hom mu).1
    · exact (AcAs_hom mu).2
  have := (isHomogeneous_C (Fin 3) (gnorm nf lam mu)).mul (Fpoly_hom lam mu hmu _ hA)
  rwa [zero_add] at this

theorem Hpoly_lap (nf lam mu c : ℕ) (hmu : mu ≤ lam) : lap (Hpoly nf lam mu c) = 0 := by
  unfold Hpoly
  have hlin : ∀ (a : ℝ) (p : P3), lap (C a * p) = C a * lap p := by
    intro a p
    unfold lap
    simp only [pderiv_C_mul, Finset.mul_sum]
  rw [hlin]
  split_ifs
  · rw [Fpoly_lap lam mu hmu _ (AcAs_hom mu).1 (AcAs_deriv2 mu).1 (lap_AcAs mu).1, mul_zero]
  · rw [Fpoly_lap lam mu hmu _ (AcAs_hom mu).2 (AcAs_deriv2 mu).2 (lap_AcAs mu).2, mul_zero]

/-- for mu > lam the slot is empty -/
theorem SU_eq_zero_of_lt (fac : Array ℝ) (lam mu c : ℕ) (h : lam < mu) (v : E3) : SU (uklm fac) lam mu c v = 0 := by
  unfold SU
  refine Finset.sum_eq_zero fun i hi => Finset.sum_eq_zero fun j hj => ?_
  simp only [Finset.mem_range] at hi hj
  by_cases hU : uklm fac lam mu i j c = 0
  · simp only [hU, zero_mul]
  · have := (uklm_ne_zero _ _ _ _ _ _ hU).1
    omega

/-- **the model's S_{lam, mu} is orthogonal on the sphere to every monomial of degree < lam** -/
theorem SU_orth (nf lam mu c : ℕ) (hnf : 2 * lam < nf) (a b d : ℕ) (h : a + b + d < lam) :
    ∫ u : sphere (0 : E3) 1, (u.1 0) ^ a * (u.1 1) ^ b * (u.1 2) ^ d
      * SU (uklm (facTable (α := ℝ) nf)) lam mu c u.1 ∂σ = 0 := by
  by_cases hmu : mu ≤ lam
  · have hm : (monomial (Finsupp.single (0 : Fin 3) a + Finsupp.single 1 b + Finsupp.single 2 d) (1 : ℝ)).IsHomogeneous
        (a + b + d) := by
      apply isHomogeneous_monomial
      simp only [map_add, Finsupp.degree_single]
    have := sphere_orth (a + b + d) lam h (Hpoly nf lam mu c) _ (Hpoly_hom nf lam mu c hmu) (Hpoly_lap nf lam mu c hmu) hm
    rw [← this]
    refine integral_congr_ae (.of_forall fun u => ?_)
    beta_reduce
    rw [evS_monomial, SU_eq_eval nf lam mu c hnf hmu]
    simp [evS, mono]
  · simp only [SU_eq_zero_of_lt _ lam mu c (by omega), mul_zero, integral_zero]

/-! ### the angular tables, unconditionally -/

/-- **every entry of the type-1 table of the model (written or not) is the sphere integral of monomial × S_{lam, idx − lam}** -/
theorem wEntry_model_all (nf maxLam k l m lam idx : ℕ) (hnf : 2 * maxLam < nf) (h1 : lam ≤ maxLam) :
    wEntry (uklm (facTable (α := ℝ) nf)) (pijk (α := ℝ)) maxLam k l m lam idx
      = ∫ u : sphere (0 : E3) 1, (u.1 0) ^ k * (u.1 1) ^ l * (u.1 2) ^ m * Sidx (facTable (α := ℝ) nf) lam idx u.1 ∂σ :=
  wEntry_uklm_core _ maxLam k l m lam idx h1 fun hlt => SU_orth nf lam _ _ (by omega) k l m hlt

/-- **one `makeOmega` iteration on the model's own tables** accumulates the sphere integral of
monomial × S_{lam, ±mu} × S_{rho, sig − rho} -/
theorem omegaIter_model_all (nf maxLam k l m rho sig lam mu : ℕ) (minus : Bool) (hnf : 2 * maxLam < nf)
    (h1 : rho ≤ maxLam) :
    omegaIter (uklm (facTable (α := ℝ) nf)) (wEntry (uklm (facTable (α := ℝ) nf)) (pijk (α := ℝ)) maxLam)
        k l m rho sig lam mu minus
      = ∫ u : sphere (0 : E3) 1, (u.1 0) ^ k * (u.1 1) ^ l * (u.1 2) ^ m
          * SU (uklm (facTable (α := ℝ) nf)) lam mu (if minus = true ∧ mu ≠ 0 then 1 else 0) u.1
          * Sidx (facTable (α := ℝ) nf) rho sig u.1 ∂σ :=
  omegaIter_model_core _ maxLam k l m rho sig lam mu minus h1
    fun hlt a b c habc => SU_orth nf rho _ _ (by omega) a b c (by omega)

/-- **every entry of the type-2 table the model stores is the sphere integral of
monomial × S_{a, ia − a} × S_{b, ib − b}** for the model's own harmonic polynomials -/
theorem omegaEntry_model_all (nf maxLam k l m a ia b ib : ℕ) (hnf : 2 * maxLam < nf) (ha : a ≤ maxLam)
    (hb : b ≤ maxLam) :
    omegaEntry (uklm (facTable (α := ℝ) nf)) (wEntry (uklm (facTable (α := ℝ) nf)) (pijk (α := ℝ)) maxLam)
        k l m a ia b ib
      = ∫ u : sphere (0 : E3) 1, (u.1 0) ^ k * (u.1 1) ^ l * (u.1 2) ^ m
          * Sidx (facTable (α := ℝ) nf) a ia u.1 * Sidx (facTable (α := ℝ) nf) b ib u.1 ∂σ :=
  omegaEntry_model_core _ maxLam k l m a ia b ib ha hb
    (fun hlt x y z hxyz => SU_orth nf a _ _ (by omega) x y z (by omega))
    (fun hlt x y z hxyz => SU_orth nf b _ _ (by omega) x y z (by omega))

/-- **Stage 3, completed**: an entry `makeW` does not write has a vanishing sphere integral (by parity when lam ≤ k+l+m, by
harmonicity when k+l+m < lam) -/
theorem unwritten_integral_zero_all (nf maxLam k l m lam idx : ℕ) (hnf : 2 * maxLam < nf) (h1 : lam ≤ maxLam)
    (h : wWritten maxLam k l m lam idx = none) :
    ∫ u : sphere (0 : E3) 1, (u.1 0) ^ k * (u.1 1) ^ l * (u.1 2) ^ m * Sidx (facTable (α := ℝ) nf) lam idx u.1 ∂σ = 0 := by
  rw [← wEntry_model_all nf maxLam k l m lam idx hnf h1]
  unfold wEntry
  rw [h]

end Ecpint.C13e
