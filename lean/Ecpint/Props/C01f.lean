/- C01 (part f) — the strided (lam, mu) loops of type 1 are lossless: they produce the full sum over ALL table entries
   (lam ≤ k+l+m, every stored index 0 … 2 lam) of C · W · R, because the type-1 table is zero wherever `makeW` did not write.
   Definitions: Model/Contraction.lean (`type1Entry`), Props/C07.lean (`type1Term`, `type1Sum`), Model/Angular.lean. -/
import Ecpint.Props.C07
import Ecpint.Props.C01e
import Ecpint.Props.C01c
import Ecpint.Lemmas.Contraction
import Ecpint.Lemmas.C09
namespace Ecpint.C01
open Ecpint.Angular Ecpint.Contraction

variable {K : Type} [CommSemiring K]

/-- the contribution of one monomial x^k y^l z^m WITHOUT strides: every lam ≤ k+l+m and every stored index 0 … 2 lam -/
def type1TermFull (W : Nat → Nat → Nat → Nat → Nat → K) (keep : K → Bool) (radials : Nat → Nat → Nat → K)
    (k l m : Nat) (C : K) : K :=
  if keep C then
    ((List.range (k + l + m + 1)).map fun lam =>
      ((List.range (2 * lam + 1)).map fun idx =>
        C * W k l m lam idx * radials (k + l + m) lam idx).sum).sum
  else 0

open Ecpint.ContractionLemmas Ecpint.C09Lemmas in
/-- reindexing a filtered range sum: if `φ` maps the kept `mu < n` injectively into `range N` and `g` vanishes on the
indices that are not hit, the sum of `g ∘ φ` over the kept `mu` is the sum of `g` over `range N` -/
theorem sum_reindex (n N : Nat) (p : Nat → Bool) (φ : Nat → Nat) (g : Nat → K)
    (hφ : ∀ mu, mu < n → p mu = true → φ mu < N)
    (hinj : ∀ mu mu', mu < n → mu' < n → p mu = true → p mu' = true → φ mu = φ mu' → mu = mu')
    (hz : ∀ idx, idx < N → (∀ mu, mu < n → p mu = true → φ mu ≠ idx) → g idx = 0) :
    (((List.range n).filter p).map fun mu => g (φ mu)).sum = ((List.range N).map g).sum := by
  rw [sum_filter_map]
  have h1 : ∀ mu ∈ List.range n, (if p mu = true then g (φ mu) else 0)
      = ((List.range N).map fun idx => if p mu = true ∧ φ mu = idx then g idx else 0).sum := by
    intro mu hmu
    have hmu' : mu < n := List.mem_range.mp hmu
    by_cases hp : p mu = true
    · rw [sum_range_single N (φ mu) _ (hφ mu hmu' hp)]
      · simp [hp]
      · intro i _ hne
        rw [if_neg]
        rintro ⟨_, h⟩
        exact hne h.symm
    · rw [if_neg hp]
      symm
      refine sum_map_eq_zero _ _ (fun idx _ => ?_)
      rw [if_neg]
      rintro ⟨h, _⟩
      exact hp h
  rw [sum_map_congr _ _ _ h1, sum_map_comm]
  refine sum_map_congr _ _ _ (fun idx hidx => ?_)
  have hidx' : idx < N := List.mem_range.mp hidx
  by_cases hex : ∃ mu, mu < n ∧ p mu = true ∧ φ mu = idx
  · obtain ⟨mu0, h0, hp0, hφ0⟩ := hex
    rw [sum_range_single n mu0 _ h0]
    · rw [if_pos ⟨hp0, hφ0⟩]
    · intro i hi hne
      rw [if_neg]
      rintro ⟨hpi, hφi⟩
      exact hne (hinj i mu0 hi h0 hpi hp0 (hφi.trans hφ0.symm))
  · have hg : g idx = 0 := hz idx hidx' (fun mu hmu hp h => hex ⟨mu, hmu, hp, h⟩)
    rw [hg]
    refine sum_map_eq_zero _ _ (fun mu _ => ?_)
    split <;> rfl

/-- for a table that vanishes wherever `makeW` (with a limit M covering the degree) did not write, the strided double loop
of type 1 equals the full double sum -/
theorem type1Term_stride_lossless (W : Nat → Nat → Nat → Nat → Nat → K) (keep : K → Bool) (radials : Nat → Nat → Nat → K)
    (M k l m : Nat) (C : K) (hM : k + l + m ≤ M)
    (hW : ∀ lam idx, wWritten M k l m lam idx = none → W k l m lam idx = 0) :
    C07.type1Term W keep radials k l m C = type1TermFull W keep radials k l m C := by
  unfold C07.type1Term type1TermFull
  split
  · -- drop the parity filter on lam on the right-hand side
    have hzero : ∀ lam ∈ List.range (k + l + m + 1),
        (fun x => decide (x % 2 = (k + l + m) % 2)) lam = false →
        ((List.range (2 * lam + 1)).map fun idx =>
          C * W k l m lam idx * radials (k + l + m) lam idx).sum = 0 := by
      intro lam _ hp
      have hp' : lam % 2 ≠ (k + l + m) % 2 := by simpa using hp
      refine C09Lemmas.sum_map_eq_zero _ _ (fun idx _ => ?_)
      rw [hW lam idx (C13.wWritten_parity M k l m lam idx (Or.inl hp')), mul_zero, zero_mul]
    rw [← sum_filter_drop _ _ _ hzero]
    unfold parityRange
    refine ContractionLemmas.sum_map_congr _ _ _ (fun lam hlam => ?_)
    have hlam' : lam ∈ parityRange (k + l + m) (k + l + m) := hlam
    refine sum_reindex (lam + 1) (2 * lam + 1) _ (fun mu => if l % 2 = 1 then lam - mu else lam + mu)
      (fun idx => C * W k l m lam idx * radials (k + l + m) lam idx) ?_ ?_ ?_
    · intro mu hmu _
      split <;> omega
    · intro mu mu' hmu hmu' _ _ h
      split at h <;> omega
    · intro idx _ hno
      have hnone : wWritten M k l m lam idx = none := by
        cases hw : wWritten M k l m lam idx with
        | none => rfl
        | some mu =>
          exfalso
          obtain ⟨_, hmu, hidx⟩ := (type1_loops_visit_exactly_written M k l m lam idx mu hM).mpr hw
          have hmu' := (parityRange_mem _ _ _).mp hmu
          exact hno mu (by omega) (by simpa using hmu'.2) hidx.symm
      rw [hW lam idx hnone, mul_zero, zero_mul]
  · rfl

/-- the explicit-sum form of the type-1 element WITHOUT strides (`type1TermFull` in place of `C07.type1Term`) -/
def type1SumFull (W : Nat → Nat → Nat → Nat → Nat → K) (keep : K → Bool) (radials : Nat → Nat → Nat → K)
    (CAna CBnb : Nat → Nat → Nat → K) (ca cb : Nat × Nat × Nat) : K :=
  ((List.range (ca.1 + 1)).map fun k1 => ((List.range (cb.1 + 1)).map fun k2 =>
    ((List.range (ca.2.1 + 1)).map fun l1 => ((List.range (cb.2.1 + 1)).map fun l2 =>
      ((List.range (ca.2.2 + 1)).map fun m1 => ((List.range (cb.2.2 + 1)).map fun m2 =>
        type1TermFull W keep radials (k1 + k2) (l1 + l2) (m1 + m2) (CAna k1 l1 m1 * CBnb k2 l2 m2)).sum).sum).sum).sum).sum).sum

/-- the whole type-1 element: with a table limit M covering the total degree of the shell pair and a table that vanishes
wherever `makeW` did not write, the strided loops give the full six-fold sum of full double sums -/
theorem type1Sum_stride_lossless (W : Nat → Nat → Nat → Nat → Nat → K) (keep : K → Bool) (radials : Nat → Nat → Nat → K)
    (CAna CBnb : Nat → Nat → Nat → K) (ca cb : Nat × Nat × Nat) (M : Nat) (hM : tsum ca + tsum cb ≤ M)
    (hW : ∀ k l m, k + l + m ≤ M → ∀ lam idx, wWritten M k l m lam idx = none → W k l m lam idx = 0) :
    C07.type1Sum W keep radials CAna CBnb ca cb = type1SumFull W keep radials CAna CBnb ca cb := by
  unfold C07.type1Sum type1SumFull
  unfold tsum at hM
  refine ContractionLemmas.sum_map_congr _ _ _ (fun k1 hk1 => ContractionLemmas.sum_map_congr _ _ _ (fun k2 hk2 => ?_))
  refine ContractionLemmas.sum_map_congr _ _ _ (fun l1 hl1 => ContractionLemmas.sum_map_congr _ _ _ (fun l2 hl2 => ?_))
  refine ContractionLemmas.sum_map_congr _ _ _ (fun m1 hm1 => ContractionLemmas.sum_map_congr _ _ _ (fun m2 hm2 => ?_))
  have := List.mem_range.mp hk1
  have := List.mem_range.mp hk2
  have := List.mem_range.mp hl1
  have := List.mem_range.mp hl2
  have := List.mem_range.mp hm1
  have := List.mem_range.mp hm2
  have hd : (k1 + k2) + (l1 + l2) + (m1 + m2) ≤ M := by omega
  exact type1Term_stride_lossless W keep radials M _ _ _ _ hd (hW _ _ _ hd)

/-! ### non-vacuity: a table that is non-zero exactly on the written entries; both sums are the same non-zero number, and
without the hypothesis on the table the two sums differ -/
section NonVacuity

/-- non-zero exactly where `makeW` (limit 4) writes -/
def exW : Nat → Nat → Nat → Nat → Nat → Nat :=
  fun k l m lam idx => match wWritten 4 k l m lam idx with
    | none => 0
    | some mu => k + 2 * l + 3 * m + lam * mu + 1

theorem exW_zero (k l m lam idx : Nat) (h : wWritten 4 k l m lam idx = none) : exW k l m lam idx = 0 := by
  simp [exW, h]

example : C07.type1Term exW (fun c => c != 0) (fun N a b => N + a + 2 * b + 1) 1 1 1 2 = 514 := by decide
example : type1TermFull exW (fun c => c != 0) (fun N a b => N + a + 2 * b + 1) 1 1 1 2 = 514 := by decide

example : C07.type1Term exW (fun c => c != 0) (fun N a b => N + a + 2 * b + 1) 1 1 1 2
    = type1TermFull exW (fun c => c != 0) (fun N a b => N + a + 2 * b + 1) 1 1 1 2 :=
  type1Term_stride_lossless exW _ _ 4 1 1 1 2 (by decide) (fun lam idx h => exW_zero 1 1 1 lam idx h)

/-- with a table that is 1 everywhere the strided loops drop non-zero terms -/
example : C07.type1Term (fun _ _ _ _ _ => 1) (fun c => c != 0) (fun N a b => N + a + 2 * b + 1) 1 1 1 2
    ≠ type1TermFull (fun _ _ _ _ _ => 1) (fun c => c != 0) (fun N a b => N + a + 2 * b + 1) 1 1 1 2 := by decide

end NonVacuity

end Ecpint.C01
