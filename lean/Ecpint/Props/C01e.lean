/- C01 (part e) — the strided (lam, mu) loops of `ECPIntegral::type1` visit exactly the entries of the type-1 angular
   table that `makeW` writes (all others are 0): the parity strides and the sign rule `msign = 1 − 2(l % 2)` lose nothing. -/
import Ecpint.Props.C01a
import Ecpint.Props.C13b
namespace Ecpint.C01
open Ecpint.Angular Ecpint.Contraction

/-- for a table built with maxLam ≥ k+l+m (the engine's table covers every degree the shell pair can produce), the triple
(lam, mu, idx) is visited by the loops of type 1 for the monomial x^k y^l z^m iff `makeW` wrote W(k,l,m,lam,idx) for that mu -/
theorem type1_loops_visit_exactly_written (maxLam k l m lam idx mu : Nat) (hmax : k + l + m ≤ maxLam) :
    (lam ∈ parityRange (k + l + m) (k + l + m) ∧ mu ∈ parityRange lam (k + l + m + m) ∧
        idx = (if l % 2 = 1 then lam - mu else lam + mu))
      ↔ wWritten maxLam k l m lam idx = some mu := by
  rw [C13.wWritten_spec, parityRange_mem, parityRange_mem]
  have hmin : min maxLam (k + l + m) = k + l + m := Nat.min_eq_right hmax
  rw [hmin]
  constructor
  · rintro ⟨⟨h1, h2⟩, ⟨h3, h4⟩, h5⟩
    by_cases hl : l % 2 = 1
    · rw [if_pos hl] at h5
      refine ⟨h2, h1, by omega, h3, Or.inr ⟨hl, by omega⟩⟩
    · rw [if_neg hl] at h5
      refine ⟨h2, h1, by omega, h3, Or.inl ⟨by omega, h5⟩⟩
  · rintro ⟨h1, h2, h3, h4, h5 | h5⟩
    · have : ¬ l % 2 = 1 := by omega
      rw [if_neg this]
      exact ⟨⟨h2, h1⟩, ⟨h4, by omega⟩, h5.2⟩
    · rw [if_pos h5.1]
      exact ⟨⟨h2, h1⟩, ⟨h4, by omega⟩, by omega⟩

end Ecpint.C01
