/- C01 (part c) — the parity shortcuts of the contraction are lossless.
   The stride-2 loop over lam2 in `rolled_up` (and the generator) skips (lam1, lam2) pairs of the wrong joint parity.  That
   loses nothing because the type-2 angular table vanishes on the skipped entries, which in turn follows from the write
   pattern of the type-1 table (Props/C13a `wWritten_parity`).  Definitions: Model/Angular.lean, Model/Contraction.lean. -/
import Ecpint.Model.Angular
import Ecpint.Model.Contraction
import Ecpint.Props.C07
import Ecpint.Props.C13a
import Ecpint.Lemmas.Contraction
import Ecpint.Lemmas.C09
namespace Ecpint.C01
open Ecpint Ecpint.Angular Ecpint.Contraction

/-- a fold whose step keeps the accumulator value `z` on every element of the list returns `z` when started at `z` -/
theorem foldl_fixed {β γ : Type} (z : β) (l : List γ) (F : β → γ → β) (h : ∀ x ∈ l, F z x = z) :
    l.foldl F z = z := by
  induction l with
  | nil => rfl
  | cons x l ih =>
    rw [List.foldl_cons, h x (List.mem_cons_self), ih (fun y hy => h y (List.mem_cons_of_mem _ hy))]

section Tables
variable {α : Type} [Flt α]

/-- entries of the type-1 table with λ of the wrong parity are never written: they are 0 -/
theorem wEntry_parity_zero (U : Nat → Nat → Nat → Nat → Nat → α) (P : Nat → Nat → Nat → α)
    (maxLam k l m lam idx : Nat) (h : lam % 2 ≠ (k + l + m) % 2) :
    wEntry U P maxLam k l m lam idx = 0 := by
  unfold wEntry
  rw [Ecpint.C13.wWritten_parity maxLam k l m lam idx (Or.inl h)]

/-- one iteration of `makeOmega` sums U · W(k+i, l+j, m+λ−i−j, ρ, ·) over i + j ≤ λ: every W it reads has total degree
k+l+m+λ, so with a W table that vanishes for the wrong parity the whole sum vanishes unless ρ ≡ k+l+m+λ (mod 2).
(`hmul`, `hadd`: the two facts about 0 the argument needs; they hold in every semiring and for IEEE doubles with finite U) -/
theorem omegaIter_parity_zero (hmul : ∀ x : α, x * 0 = 0) (hadd : (0 : α) + 0 = 0)
    (U : Nat → Nat → Nat → Nat → Nat → α) (Wf : Nat → Nat → Nat → Nat → Nat → α)
    (hW : ∀ k l m lam idx, lam % 2 ≠ (k + l + m) % 2 → Wf k l m lam idx = 0)
    (k l m rho sig lam mu : Nat) (minus : Bool) (h : rho % 2 ≠ (k + l + m + lam) % 2) :
    omegaIter U Wf k l m rho sig lam mu minus = 0 := by
  unfold omegaIter
  dsimp only
  refine foldl_fixed _ _ _ (fun i hi => ?_)
  refine foldl_fixed _ _ _ (fun j hj => ?_)
  have hi' : i < lam + 1 := List.mem_range.mp hi
  have hj' : j < lam - i + 1 := List.mem_range.mp hj
  rw [hW (k + i) (l + j) (m + lam - i - j) rho sig (by omega), hmul, hadd]

/-- hence the stored type-2 entry omega(k,l,m; a,·; b,·) is 0 unless a + b ≡ k + l + m (mod 2) -/
theorem omegaEntry_parity_zero (hmul : ∀ x : α, x * 0 = 0) (hadd : (0 : α) + 0 = 0)
    (U : Nat → Nat → Nat → Nat → Nat → α) (Wf : Nat → Nat → Nat → Nat → Nat → α)
    (hW : ∀ k l m lam idx, lam % 2 ≠ (k + l + m) % 2 → Wf k l m lam idx = 0)
    (k l m a ia b ib : Nat) (h : (a + b) % 2 ≠ (k + l + m) % 2) :
    omegaEntry U Wf k l m a ia b ib = 0 := by
  unfold omegaEntry
  dsimp only
  split_ifs <;> exact omegaIter_parity_zero hmul hadd U Wf hW _ _ _ _ _ _ _ _ (by omega)

end Tables

section Stride
variable {K : Type} [CommSemiring K]
open Ecpint.ContractionLemmas Ecpint.C09Lemmas

/-- the contracted angular factor vanishes when every table entry it reads does -/
theorem wContr_eq_zero (omega : Nat → Nat → Nat → Nat → Nat → Nat → Nat → K) (lam : Nat) (S : Array (Array K))
    (a : Nat × Nat × Nat) (lam1 mi : Nat) (h : ∀ m1, omega a.1 a.2.1 a.2.2 lam mi lam1 m1 = 0) :
    wContr omega lam S a lam1 mi = 0 := by
  unfold wContr
  refine foldl_fixed _ _ _ (fun m1 _ => ?_)
  rw [h m1, mul_zero, add_zero]

/-- with the parity property of the table, the contracted factor vanishes for lam1 ≢ lam + |a| (mod 2) -/
theorem wContr_parity_zero (omega : Nat → Nat → Nat → Nat → Nat → Nat → Nat → K) (lam : Nat)
    (hpar : ∀ (k l m mi l' m1 : Nat), (lam + l') % 2 ≠ (k + l + m) % 2 → omega k l m lam mi l' m1 = 0)
    (S : Array (Array K)) (a : Nat × Nat × Nat) (lam1 mi : Nat) (h : (lam + lam1) % 2 ≠ tsum a % 2) :
    wContr omega lam S a lam1 mi = 0 :=
  wContr_eq_zero omega lam S a lam1 mi (fun _ => hpar _ _ _ _ _ _ h)

/-- dropping elements with value zero does not change a sum -/
theorem sum_filter_drop {γ : Type} (l : List γ) (p : γ → Bool) (f : γ → K) (h : ∀ x ∈ l, p x = false → f x = 0) :
    ((l.filter p).map f).sum = (l.map f).sum := by
  rw [sum_filter_map]
  refine sum_map_congr _ _ _ (fun x hx => ?_)
  cases hp : p x
  · simp [h x hx hp]
  · simp

/-- the rolled-up sum WITHOUT the parity stride: lam2 runs over all of 0 … lam + |b| -/
def rolledUpSumFull (omega : Nat → Nat → Nat → Nat → Nat → Nat → Nat → K) (keep : K → Bool) (prefac : K) (lam : Nat)
    (radials : Nat → Nat → Nat → K) (CAna CBnb : Nat → Nat → Nat → K) (SA SB : Array (Array K))
    (ca cb : Nat × Nat × Nat) (mi : Nat) : K :=
  ((subIdx ca).map fun a => ((subIdx cb).map fun b =>
    let C := CAna a.1 a.2.1 a.2.2 * CBnb b.1 b.2.1 b.2.2
    if keep C then
      ((List.range (lam + tsum a + 1)).map fun lam1 =>
        ((List.range (lam + tsum b + 1)).map fun lam2 =>
          prefac * C * radials (tsum a + tsum b) lam1 lam2 * wContr omega lam SA a lam1 mi * wContr omega lam SB b lam2 mi).sum).sum
    else 0).sum).sum

/-- the stride-2 loop over lam2 is lossless: if the angular table vanishes for lam1 ≢ lam + |a| (mod 2) — which
`omegaEntry_parity_zero` proves of the model's table — the strided sum the code runs equals the full double sum of the
published expansion -/
theorem rolledUp_parity_stride_lossless (omega : Nat → Nat → Nat → Nat → Nat → Nat → Nat → K) (keep : K → Bool) (prefac : K) (lam : Nat)
    (hpar : ∀ (k l m mi l' m1 : Nat), (lam + l') % 2 ≠ (k + l + m) % 2 → omega k l m lam mi l' m1 = 0)
    (radials : Nat → Nat → Nat → K) (CAna CBnb : Nat → Nat → Nat → K) (SA SB : Array (Array K))
    (ca cb : Nat × Nat × Nat) (mi : Nat) :
    C07.rolledUpSum omega keep prefac lam radials CAna CBnb SA SB ca cb mi
      = rolledUpSumFull omega keep prefac lam radials CAna CBnb SA SB ca cb mi := by
  unfold C07.rolledUpSum rolledUpSumFull
  dsimp only
  refine sum_map_congr _ _ _ (fun a _ => sum_map_congr _ _ _ (fun b _ => ?_))
  split
  · refine sum_map_congr _ _ _ (fun lam1 _ => ?_)
    unfold parityRange
    refine sum_filter_drop _ _ _ (fun lam2 _ hp => ?_)
    have hp' : lam2 % 2 ≠ (lam1 + (tsum a + tsum b)) % 2 := by simpa using hp
    by_cases h1 : (lam + lam1) % 2 = tsum a % 2
    · rw [wContr_parity_zero omega lam hpar SB b lam2 mi (by omega), mul_zero]
    · rw [wContr_parity_zero omega lam hpar SA a lam1 mi h1, mul_zero, zero_mul]
  · rfl

end Stride

/-! ### non-vacuity: a concrete instance over ℕ whose table satisfies `hpar` and whose two sums are the same non-zero number -/
section NonVacuity

/-- a table that is non-zero exactly on the parity-allowed entries -/
def exOmega : Nat → Nat → Nat → Nat → Nat → Nat → Nat → Nat :=
  fun k l m a ia b ib => if (a + b) % 2 = (k + l + m) % 2 then k + l + m + ia + ib + 1 else 0
def exSA : Array (Array Nat) := #[#[1], #[1, 2, 3], #[1, 1, 2, 1, 1]]
def exSB : Array (Array Nat) := #[#[2], #[3, 1, 1], #[1, 2, 1, 2, 1]]

/-- the hypothesis `hpar` of `rolledUp_parity_stride_lossless` holds for `exOmega` (lam = 1) -/
example : ∀ (k l m mi l' m1 : Nat), (1 + l') % 2 ≠ (k + l + m) % 2 → exOmega k l m 1 mi l' m1 = 0 := by
  intro k l m mi l' m1 h
  simp [exOmega, h]

/-- the strided sum of the instance (lam = 1, ca = (1,0,0), cb = (0,1,0), mu index 1) -/
example : C07.rolledUpSum exOmega (fun c => c != 0) 2 1 (fun N l1 l2 => N + l1 + 2 * l2 + 1)
    (fun k l m => k + l + m + 1) (fun k l m => k + 2 * l + m + 1) exSA exSB (1, 0, 0) (0, 1, 0) 1 = 177292 := by decide

/-- the full sum of the same instance: the same non-zero number -/
example : rolledUpSumFull exOmega (fun c => c != 0) 2 1 (fun N l1 l2 => N + l1 + 2 * l2 + 1)
    (fun k l m => k + l + m + 1) (fun k l m => k + 2 * l + m + 1) exSA exSB (1, 0, 0) (0, 1, 0) 1 = 177292 := by decide

/-- the theorem applies to the instance -/
example : C07.rolledUpSum exOmega (fun c => c != 0) 2 1 (fun N l1 l2 => N + l1 + 2 * l2 + 1)
    (fun k l m => k + l + m + 1) (fun k l m => k + 2 * l + m + 1) exSA exSB (1, 0, 0) (0, 1, 0) 1
    = rolledUpSumFull exOmega (fun c => c != 0) 2 1 (fun N l1 l2 => N + l1 + 2 * l2 + 1)
    (fun k l m => k + l + m + 1) (fun k l m => k + 2 * l + m + 1) exSA exSB (1, 0, 0) (0, 1, 0) 1 :=
  rolledUp_parity_stride_lossless exOmega _ 2 1 (fun k l m mi l' m1 h => by simp [exOmega, h]) _ _ _ _ _ _ _ _

/-- without `hpar` the two sums differ: with a table that is 1 everywhere the strided sum drops non-zero terms -/
example : C07.rolledUpSum (fun _ _ _ _ _ _ _ => 1) (fun c => c != 0) 2 1 (fun N l1 l2 => N + l1 + 2 * l2 + 1)
    (fun k l m => k + l + m + 1) (fun k l m => k + 2 * l + m + 1) exSA exSB (1, 0, 0) (0, 1, 0) 1
    ≠ rolledUpSumFull (fun _ _ _ _ _ _ _ => 1) (fun c => c != 0) 2 1 (fun N l1 l2 => N + l1 + 2 * l2 + 1)
    (fun k l m => k + l + m + 1) (fun k l m => k + 2 * l + m + 1) exSA exSB (1, 0, 0) (0, 1, 0) 1 := by decide

end NonVacuity
end Ecpint.C01
