import Driver.Radial
import Ecpint.Model.Angular
/-! layer `angular`:
  `angular <LB> <LE> W <k> <l> <m> <lam> <idx> … O <k> <l> <m> <a> <ia> <b> <ib> …`  → `W <v>*` and `O <v>*` (hex)
  `rsh <lmax> <x> <phi>` → `S <l> <v>*` per l -/
namespace Driver.Angular
open Ecpint Ecpint.Angular Driver.Radial

structure Tabs where
  LB : Nat
  LE : Nat
  maxL : Nat
  wDim : Nat
  U : Nat → Nat → Nat → Nat → Nat → Float
  P : Nat → Nat → Nat → Float
  W : Nat → Nat → Nat → Nat → Nat → Float

def mkTabs (LB LE : Nat) : Tabs :=
  let wDim := max (4 * LB) (3 * LB + LE)
  let maxL := max (2 * LB) (LB + LE)
  let fac : Array Float := facTable 100
  let dim := maxL + 1
  -- U table
  let uArr : Array Float := Id.run do
    let mut a := Array.replicate (dim * dim * dim * dim * 2) 0.0
    for lam in [0:dim] do
      for mu in [0:lam + 1] do
        for i in [0:lam + 1] do
          for j in [0:lam - i + 1] do
            for c in [0:2] do
              a := a.set! ((((lam * dim + mu) * dim + i) * dim + j) * 2 + c) (uklm fac lam mu i j c)
    return a
  let U := fun lam mu i j c => uArr[(((lam * dim + mu) * dim + i) * dim + j) * 2 + c]!
  let maxI := (maxL + wDim) / 2
  let pd := maxI + 1
  let pArr : Array Float := Id.run do
    let mut a := Array.replicate (pd * pd * pd) 0.0
    for i in [0:pd] do
      for j in [0:i + 1] do
        for k in [0:j + 1] do
          a := a.set! ((i * pd + j) * pd + k) (pijk i j k)
    return a
  let P := fun i j k => pArr[(i * pd + j) * pd + k]!
  let wd := wDim + 1
  let d4 := maxL + 1
  let d5 := 2 * (maxL + 1)
  let wArr : FloatArray := Id.run do
    let mut a : FloatArray := FloatArray.emptyWithCapacity (wd * wd * wd * d4 * d5)
    for k in [0:wd] do
      for l in [0:wd] do
        for m in [0:wd] do
          for lam in [0:d4] do
            for idx in [0:d5] do
              a := a.push (wEntry U P maxL k l m lam idx)
    return a
  let W := fun k l m lam idx => wArr[(((k * wd + l) * wd + m) * d4 + lam) * d5 + idx]!
  { LB := LB, LE := LE, maxL := maxL, wDim := wDim, U := U, P := P, W := W }

partial def parse (T : Tabs) (mode : String) (ts : List String) (accW accO : Array String) : Array String × Array String :=
  match ts with
  | [] => (accW, accO)
  | "W" :: rest => parse T "W" rest accW accO
  | "O" :: rest => parse T "O" rest accW accO
  | _ =>
    if mode == "W" then
      match ts with
      | k :: l :: m :: lam :: idx :: rest =>
        match k.toNat?, l.toNat?, m.toNat?, lam.toNat?, idx.toNat? with
        | some k, some l, some m, some lam, some idx => parse T mode rest (accW.push (hexOfFloat (T.W k l m lam idx))) accO
        | _, _, _, _, _ => (accW.push "bad", accO)
      | _ => (accW.push "bad", accO)
    else
      match ts with
      | k :: l :: m :: a :: ia :: b :: ib :: rest =>
        match k.toNat?, l.toNat?, m.toNat?, a.toNat?, ia.toNat?, b.toNat?, ib.toNat? with
        | some k, some l, some m, some a, some ia, some b, some ib =>
          parse T mode rest accW (accO.push (hexOfFloat (omegaEntry T.U T.W k l m a ia b ib)))
        | _, _, _, _, _, _, _ => (accW, accO.push "bad")
      | _ => (accW, accO.push "bad")

def handle (toks : List String) : List String :=
  match toks with
  | lb :: le :: rest =>
    match lb.toNat?, le.toNat? with
    | some LB, some LE =>
      let T := mkTabs LB LE
      let (w, o) := parse T "W" rest #[] #[]
      ["W " ++ " ".intercalate w.toList, "O " ++ " ".intercalate o.toList]
    | _, _ => ["bad-op"]
  | _ => ["bad-op"]

def handleRsh (toks : List String) : List String :=
  match toks with
  | [lmax, x, phi] =>
    match lmax.toNat?, floatOfHex x, floatOfHex phi with
    | some lmax, some x, some phi =>
      let fac : Array Float := facTable 100
      let dfac : Array Float := Bessel.dfacTable 200
      let S := rsh fac dfac lmax x phi
      (List.range (lmax + 1)).map fun l => s!"S {l} " ++ " ".intercalate ((S[l]!).toList.map hexOfFloat)
    | _, _, _ => ["bad-op"]
  | _ => ["bad-op"]

end Driver.Angular
