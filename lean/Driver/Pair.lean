import Driver.Angular
import Ecpint.Model.ShellPair
import Ecpint.Gen.QTerms
import Ecpint.Gen.GammaTable
import Ecpint.Model.Generator
/-! layer `pair` (multi-line; producer harness/corr_pair.cpp):
  engine <maxLB> <maxLU> <deriv>
  ecp <cx> <cy> <cz> <nprim> (<n> <l> <a> <d>)*           n as stored (already reduced by two); sorted by l
  shellA <l> <cx> <cy> <cz> <nprim> (<exp> <coef>)*   shellB …
  shift <sa> <sb>
  ext D|E (<arg> <val>)*                                  logged calls of Dawson / erf
  sw <tailCut> <closedForms> <radialScreen> <pairScreen> <prescreen> <finest>      → one `V <nA> <nB> <v>*` per sw line
  gencheck <LA> <LB> <lam>   (after `engine`)  → `G <LA> <LB> <lam> triples=.. nbase=.. terms=.. nterms=.. pruned=<hex>`:
                             the generator model run on the engine's angular tables against Gen/QClasses + Gen/QTerms
  screens                                                 → `S <v>*` the per-l estimates -/
namespace Driver.Pair
open Ecpint Ecpint.ShellPair Ecpint.Contraction Driver.Radial

def piF : Float := 3.14159265358979323846
def eulerF : Float := 2.71828182845904523536
def sinh1F : Float := ratF Gen.SINH_1_num Gen.SINH_1_den
def pairTolF : Float := ratF Gen.ECPINT_TOLERANCE_num Gen.ECPINT_TOLERANCE_den

structure EngKey where
  lb : Nat
  lu : Nat
deriving BEq

structure Cache where
  key : Option EngKey := none
  eng : Option (Engine Float) := none
  /-- engines built earlier in this process (most recent first, at most four): a session that alternates between engine sizes does
  not rebuild the large tables -/
  older : List (EngKey × Engine Float) := []

def mkEngine (lb lu : Nat) : Engine Float :=
  let T := Driver.Angular.mkTabs lb lu
  let lamDim := lu + lb
  let d1 := lb + 1
  let d4 := lamDim + 1
  let d5 := 2 * lamDim + 2
  let omegaArr : FloatArray := Id.run do
    let mut a : FloatArray := FloatArray.emptyWithCapacity (d1 * d1 * d1 * d4 * d5 * d4 * d5)
    for k in [0:d1] do
      for l in [0:d1] do
        for m in [0:d1] do
          for x in [0:d4] do
            for ix in [0:d5] do
              for y in [0:d4] do
                for iy in [0:d5] do
                  a := a.push (if ix ≤ 2 * x ∧ iy ≤ 2 * y then Angular.omegaEntry T.U T.W k l m x ix y iy else 0.0)
    return a
  { maxLB := lb, maxLU := lu
    prim := Quad.initGrid Gen.PRIM_GRID .onePoint
    small := Quad.transformZeroInf (Quad.initGrid Gen.SMALL_GRID_DEFAULT .twoPoint)
    big := Quad.initGrid Gen.BIG_GRID_DEFAULT .onePoint
    bessel := Bessel.build (2 * lb + lu) Gen.BESSEL_N Gen.BESSEL_ORDER tolF
    W := T.W
    omega := fun k l m x ix y iy => omegaArr[((((((k * d1 + l) * d1 + m) * d4 + x) * d5 + ix) * d4 + y) * d5 + iy)]!
    fac := Angular.facTable 100
    dfac := Bessel.dfacTable 200
    smallZ := smallF, tol := tolF, pairTol := pairTolF, minExp := minExpF, rootPi := rootPiF
    gamma := (Gen.gammaTable.map fun (q : Int × Nat) => ratF q.1 q.2).toArray
    dawson := fun _ => 0.0 / 0.0
    erf := fun _ => 0.0 / 0.0 }

structure Req where
  lb : Nat := 0
  lu : Nat := 0
  ecp : Option (Ecp Float) := none
  sA : Option (Shell Float) := none
  sB : Option (Shell Float) := none
  shiftA : Int := 0
  shiftB : Int := 0
  daw : Std.HashMap UInt64 Float := {}
  erf : Std.HashMap UInt64 Float := {}
  out : List String := []
  bad : Bool := false

def parseShell (ts : List String) : Option (Shell Float) :=
  match ts with
  | l :: cx :: cy :: cz :: n :: rest =>
    match l.toNat?, floats [cx, cy, cz], n.toNat?, floats rest with
    | some l, some c, some n, some v =>
      if v.size = 2 * n then
        let exps := (Array.range n).map fun i => v[2 * i]!
        let coefs := (Array.range n).map fun i => v[2 * i + 1]!
        let minExp := exps.foldl (fun m e => if e < m then e else m) 100.0
        some { exps := exps, coeffs := coefs, l := l, minExp := minExp, center := (c[0]!, c[1]!, c[2]!) }
      else none
    | _, _, _, _ => none
  | _ => none

def parseEcp (ts : List String) : Option (Ecp Float) :=
  match ts with
  | cx :: cy :: cz :: n :: rest =>
    match floats [cx, cy, cz], n.toNat? with
    | some c, some n =>
      if rest.length = 4 * n then
        let arr := rest.toArray
        let gs? := (List.range n).mapM fun i =>
          match (arr[4 * i]!).toInt?, (arr[4 * i + 1]!).toNat?, floatOfHex arr[4 * i + 2]!, floatOfHex arr[4 * i + 3]! with
          | some nn, some l, some a, some d => some ({ n := nn, l := l, a := a, d := d } : GaussECP Float)
          | _, _, _, _ => none
        match gs? with
        | none => none
        | some gs =>
          let maxL := Gen.LIBECPINT_MAX_L
          let L := gs.foldl (fun m g => max m g.l) 0
          let lStarts := (Array.range (maxL + 2)).map fun lx => (gs.filter fun g => g.l < lx).length
          let minExpL := (Array.range (maxL + 1)).map fun l => gs.foldl (fun m g => if g.l = l ∧ g.a < m then g.a else m) 1000.0
          some { gs := gs.toArray, L := L, lStarts := lStarts, minExpL := minExpL, center := (c[0]!, c[1]!, c[2]!) }
      else none
    | _, _ => none
  | _ => none

def addExt (m : Std.HashMap UInt64 Float) (ts : List String) : Option (Std.HashMap UInt64 Float) :=
  match floats ts with
  | some v => if v.size % 2 = 0 then
      some ((List.range (v.size / 2)).foldl (fun m i => m.insert (v[2 * i]!).toBits v[2 * i + 1]!) m) else none
  | none => none

def classesOf (LA LB lam : Nat) : Option (Gen.QClass × Option (Array (UTerm Float))) :=
  match Gen.qclasses.find? fun c => c.LA = LA ∧ c.LB = LB ∧ c.lam = lam with
  | none => none
  | some c =>
    let terms := (Gen.unrolledTerms LA LB lam).map fun ts =>
      (ts.map fun (t : Gen.RawTerm) => ({ na := t.na, nb := t.nb, mu := t.mu, coef := t.coef, ca := t.ca, cb := t.cb, rad := t.rad, sa := t.sa, sb := t.sb } : UTerm Float)).toArray
    some (c, terms)

def feed (cache : Cache) (q : Req) (ts : List String) : Cache × Req :=
  let fail := (cache, { q with bad := true })
  match ts with
  | ["engine", lb, lu, dv] =>
    match lb.toNat?, lu.toNat?, dv.toNat? with
    | some lb, some lu, some dv =>
      let key : EngKey := ⟨lb + dv, lu⟩
      if cache.key == some key then (cache, { q with lb := lb + dv, lu := lu })
      else
        let kept := match cache.key, cache.eng with
          | some k, some e => ((k, e) :: cache.older).take 4
          | _, _ => cache.older
        match kept.find? fun p => p.1 == key with
        | some p => ({ key := some key, eng := some p.2, older := kept.filter fun r => !(r.1 == key) }, { q with lb := lb + dv, lu := lu })
        | none => ({ key := some key, eng := some (mkEngine (lb + dv) lu), older := kept }, { q with lb := lb + dv, lu := lu })
    | _, _, _ => fail
  | "ecp" :: rest => match parseEcp rest with
    | some e => (cache, { q with ecp := some e })
    | none => fail
  | "shellA" :: rest => match parseShell rest with
    | some s => (cache, { q with sA := some s })
    | none => fail
  | "shellB" :: rest => match parseShell rest with
    | some s => (cache, { q with sB := some s })
    | none => fail
  | ["shift", a, b] => match a.toInt?, b.toInt? with
    | some a, some b => (cache, { q with shiftA := a, shiftB := b })
    | _, _ => fail
  | "ext" :: "D" :: rest => match addExt q.daw rest with
    | some m => (cache, { q with daw := m })
    | none => fail
  | "ext" :: "E" :: rest => match addExt q.erf rest with
    | some m => (cache, { q with erf := m })
    | none => fail
  | "sw" :: flags =>
    match cache.eng, q.ecp, q.sA, q.sB, flags.mapM (·.toNat?) with
    | some E0, some U, some sA, some sB, some [a, b, c, d, e, f] =>
      let nan : Float := 0.0 / 0.0
      let E := { E0 with dawson := fun x => q.daw.getD x.toBits nan, erf := fun x => q.erf.getD x.toBits nan }
      let sw : Switches := { tailCut := a != 0, closedForms := b != 0, radialScreen := c != 0, pairScreen := d != 0, prescreen := e != 0, finest := f != 0 }
      let r := computeShellPair E sw (fun i z => Gen.fastPow i z) (fun x n => Float.pow x (Float.ofNat n)) Gen.MAX_POW eulerF sinh1F classesOf U sA sB q.shiftA q.shiftB
      (cache, { q with out := q.out ++ [s!"V {r.1} {r.2.1} " ++ " ".intercalate (r.2.2.toList.map hexOfFloat)] })
    | _, _, _, _, _ => fail
  | ["gencheck", la, lb, lam] =>
    match cache.eng, la.toNat?, lb.toNat?, lam.toNat? with
    | some E, some LA, some LB, some lam =>
      let prefac : Float := 16.0 * piF * piF
      let cd := Generator.classData E.omega prefac lam LA LB
      let line := match Gen.qclasses.find? fun c => c.LA = LA ∧ c.LB = LB ∧ c.lam = lam with
        | none => s!"G {LA} {LB} {lam} class-missing"
        | some c =>
          let trOk := cd.triplesA == c.triplesA && cd.triplesB == c.triplesB
          let nbOk := cd.nbase == c.nbase
          let (termsMsg, n) := match Gen.unrolledTerms LA LB lam with
            | none => (if c.unrolled then "BAD:class-says-unrolled-but-no-terms" else "none", 0)
            | some ts =>
              let kept := fun a b l1 l2 => Generator.genKept E.omega prefac lam a b l1 l2
              let mine : List (UTerm Float) := unroll E.omega prefac kept lam LA LB
              let same := fun (t : Gen.RawTerm) (u : UTerm Float) =>
                t.na == u.na && t.nb == u.nb && t.mu == u.mu && t.ca == u.ca && t.cb == u.cb && t.rad == u.rad && t.sa == u.sa && t.sb == u.sb
                  && (t.coef.toBits == u.coef.toBits || (t.coef == 0.0 && u.coef == 0.0))
              if ts.length != mine.length then (s!"BAD:length-{ts.length}-vs-{mine.length}", ts.length)
              else match (ts.zip mine).findIdx? fun (t, u) => !same t u with
                | some i => (s!"BAD:line-{i}", ts.length)
                | none => ("ok", ts.length)
          s!"G {LA} {LB} {lam} triples={if trOk then "ok" else "BAD"} nbase={if nbOk then "ok" else s!"BAD:{cd.nbase}-vs-{c.nbase}"} terms={termsMsg} nterms={n} pruned={hexOfFloat cd.prunedMax} lost={hexOfFloat cd.lostMax}"
      (cache, { q with out := q.out ++ [line] })
    | _, _, _, _ => fail
  | ["screens"] =>
    match cache.eng, q.ecp, q.sA, q.sB with
    | some E, some U, some sA, some sB =>
      let d := mkData U sA sB q.shiftA q.shiftB
      let s := estimateType2 E (fun i z => Gen.fastPow i z) U sA sB d eulerF sinh1F
      (cache, { q with out := q.out ++ ["S " ++ " ".intercalate (s.toList.map hexOfFloat)] })
    | _, _, _, _ => fail
  | _ => fail

def finish (q : Req) : List String := if q.bad then ["bad-op"] else q.out

end Driver.Pair
