import Ecpint.Model.Api
/-! dense Float matrices for the driver, hex-bit I/O -/
namespace Driver

structure Mat where
  r : Nat
  c : Nat
  d : Array Float
deriving Inhabited

namespace Mat
def zero : Mat := ⟨0, 0, #[]⟩
def get (m : Mat) (i j : Nat) : Float := m.d.getD (i * m.c + j) 0.0
def ofFn (r c : Nat) (f : Nat → Nat → Float) : Mat :=
  ⟨r, c, Id.run do
    let mut a := Array.mkEmpty (r * c)
    for i in [0:r] do
      for j in [0:c] do
        a := a.push (f i j)
    return a⟩
def add (a b : Mat) : Mat :=
  if a.d.isEmpty && a.r == 0 then b
  else if b.d.isEmpty && b.r == 0 then a
  else ⟨a.r, a.c, Array.zipWith (· + ·) a.d b.d⟩
def tr (a : Mat) : Mat := ofFn a.c a.r fun i j => a.get j i
def symLower (a : Mat) : Mat := ofFn a.r a.c fun i j => if j ≤ i then a.get i j else a.get j i
def scale (k : Float) (a : Mat) : Mat := ⟨a.r, a.c, a.d.map (k * ·)⟩
def neg (a : Mat) : Mat := ⟨a.r, a.c, a.d.map (fun x => -x)⟩
instance : Add Mat := ⟨add⟩
instance : Zero Mat := ⟨zero⟩
instance : Ecpint.Api.Block Mat := { tr := tr, symLower := symLower }
end Mat

def hexDigit (c : Char) : Option Nat :=
  if '0' ≤ c ∧ c ≤ '9' then some (c.toNat - '0'.toNat)
  else if 'a' ≤ c ∧ c ≤ 'f' then some (c.toNat - 'a'.toNat + 10)
  else if 'A' ≤ c ∧ c ≤ 'F' then some (c.toNat - 'A'.toNat + 10)
  else none

/-- 16 hex digits (IEEE-754 bits) → Float -/
def floatOfHex (s : String) : Option Float :=
  if s.length ≠ 16 then none else
  (s.toList.foldlM (fun (acc : Nat) c => (hexDigit c).map (acc * 16 + ·)) 0).map
    fun n => Float.ofBits (UInt64.ofNat n)

def hexOfFloat (x : Float) : String :=
  let n := x.toBits.toNat
  let digs := (List.range 16).map fun i =>
    let d := (n / 16 ^ (15 - i)) % 16
    Char.ofNat (if d < 10 then '0'.toNat + d else 'a'.toNat + d - 10)
  String.ofList digs

def floats (ts : List String) : Option (Array Float) :=
  ts.foldlM (fun (a : Array Float) t => (floatOfHex t).map a.push) #[]

def showMat (m : Mat) : String := " ".intercalate (m.d.toList.map hexOfFloat)

end Driver
