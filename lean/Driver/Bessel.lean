import Driver.FloatMat
import Ecpint.Model.Bessel
/-! layer `bessel` (table built once per lMax and cached in the request state):
  `bessel <lMax> <z-hex>*`      → per z: `A <z> <v_0> … <v_lMax>` (all-orders evaluator, values pre-filled with 7.0)
                                         `O <z> <v_0> … <v_lMax>` (single-order evaluator, one call per order)
                                         `U <z> <ub_0> … <ub_lMax>` (upper_bound)
  `besselrow <lMax> <i>*`       → `K <i> …` and `D <i> <n> …` rows of the tables -/
namespace Driver.Bessel
open Ecpint.Bessel

instance : NatCast Float := ⟨Float.ofNat⟩
instance : One Float := ⟨1.0⟩
instance : Num Float :=
  { exp := Float.exp, floorNat := fun x => (Float.floor x).toUInt64.toNat, abs := Float.abs,
    decLt := fun a b => inferInstanceAs (Decidable (a < b)) }

def smallF : Float := Float.ofInt Ecpint.Gen.SMALL_num / Float.ofNat Ecpint.Gen.SMALL_den
def accF : Float := Float.ofInt Ecpint.Gen.RADIAL_THRESH_DEFAULT_num / Float.ofNat Ecpint.Gen.RADIAL_THRESH_DEFAULT_den

def table (lMax : Nat) : Table Float := build lMax Ecpint.Gen.BESSEL_N Ecpint.Gen.BESSEL_ORDER accF

def showRow (a : Array Float) : String := " ".intercalate (a.toList.map hexOfFloat)

def handle (toks : List String) : List String :=
  match toks with
  | l :: zs =>
    match l.toNat?, floats zs with
    | some lMax, some zs =>
      let T := table lMax
      zs.toList.flatMap fun z =>
        let all := calcAll T smallF z lMax (Array.replicate (lMax + 1) 7.0)
        let one := (Array.range (lMax + 1)).map fun L => calcOne T smallF z L
        let ub := (Array.range (lMax + 1)).map fun L => upperBound T z L
        [s!"A {hexOfFloat z} " ++ showRow all, s!"O {hexOfFloat z} " ++ showRow one, s!"U {hexOfFloat z} " ++ showRow ub]
    | _, _ => ["bad-op"]
  | _ => ["bad-op"]

def handleRows (toks : List String) : List String :=
  match toks with
  | l :: is =>
    match l.toNat?, is.mapM (·.toNat?) with
    | some lMax, some is =>
      let T := table lMax
      is.flatMap fun i =>
        if i > T.N then ["bad-op"] else
        [s!"K {i} " ++ showRow T.K[i]!] ++
          (List.range (Ecpint.Gen.TAYLOR_CUT + 1)).map fun n => s!"D {i} {n} " ++ showRow (T.dK[i]!)[n]!
    | _, _ => ["bad-op"]
  | _ => ["bad-op"]

end Driver.Bessel
