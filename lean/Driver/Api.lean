import Driver.FloatMat
import Std.Data.HashMap
/-! layer `api` (multi-line request, see harness/corr_api.cpp for the producer):
  shell <x> <y> <z> <ncart> | ecp <x> <y> <z> | kept <s1> <u>
  i <s1> <s2> <u> <r> <c> <v>*   d <s1> <s2> <u> <idx> <r> <c> <v>*   h <s1> <s2> <u> <idx> <r> <c> <v>*
  want <deriv>
out: ids <shell ids> | <ecp ids> | <natoms> ; I <ncart> <v>* ; D <k> <v>* ; H <k> <v>* -/
namespace Driver.Api
open Ecpint.Api

abbrev Key := Nat × Nat × Nat × Nat

structure Req where
  shells : Array (Float × Float × Float × Nat) := #[]
  ecps : Array (Float × Float × Float) := #[]
  kept : Std.HashMap (Nat × Nat) Bool := {}
  ib : Std.HashMap Key Mat := {}
  db : Std.HashMap Key Mat := {}
  hb : Std.HashMap Key Mat := {}
  deriv : Nat := 0
  bad : Bool := false

def close (a b : Float × Float × Float) : Bool :=
  -- diff = |dx|; diff += |dy|; diff += |dz|; diff < 1e-4   (same order as init)
  let d := (a.1 - b.1).abs
  let d := d + (a.2.1 - b.2.1).abs
  let d := d + (a.2.2 - b.2.2).abs
  d < 1e-4

def parseMat (ts : List String) : Option Mat :=
  match ts with
  | r :: c :: vs => do
    let r ← r.toNat?; let c ← c.toNat?
    let d ← floats vs
    if d.size = r * c then some ⟨r, c, d⟩ else none
  | _ => none

def feed (q : Req) (ts : List String) : Req :=
  let fail := { q with bad := true }
  match ts with
  | ["shell", x, y, z, n] =>
    match floatOfHex x, floatOfHex y, floatOfHex z, n.toNat? with
    | some x, some y, some z, some n => { q with shells := q.shells.push (x, y, z, n) }
    | _, _, _, _ => fail
  | ["ecp", x, y, z] =>
    match floatOfHex x, floatOfHex y, floatOfHex z with
    | some x, some y, some z => { q with ecps := q.ecps.push (x, y, z) }
    | _, _, _ => fail
  | ["kept", s, u] =>
    match s.toNat?, u.toNat? with
    | some s, some u => { q with kept := q.kept.insert (s, u) true }
    | _, _ => fail
  | ["want", d] => match d.toNat? with
    | some d => { q with deriv := d }
    | none => fail
  | "i" :: s1 :: s2 :: u :: rest =>
    match s1.toNat?, s2.toNat?, u.toNat?, parseMat rest with
    | some s1, some s2, some u, some m => { q with ib := q.ib.insert (s1, s2, u, 0) m }
    | _, _, _, _ => fail
  | "d" :: s1 :: s2 :: u :: i :: rest =>
    match s1.toNat?, s2.toNat?, u.toNat?, i.toNat?, parseMat rest with
    | some s1, some s2, some u, some i, some m => { q with db := q.db.insert (s1, s2, u, i) m }
    | _, _, _, _, _ => fail
  | "h" :: s1 :: s2 :: u :: i :: rest =>
    match s1.toNat?, s2.toNat?, u.toNat?, i.toNat?, parseMat rest with
    | some s1, some s2, some u, some i, some m => { q with hb := q.hb.insert (s1, s2, u, i) m }
    | _, _, _, _, _ => fail
  | _ => fail

/-- glue the blocks of a full matrix together (offsets = running sums of ncart) -/
def assemble (ncarts : Array Nat) (blk : Nat → Nat → Mat) : Mat :=
  let offs := ncarts.foldl (fun (acc : Array Nat) n => acc.push (acc.back! + n)) #[0]
  let total := offs.back!
  Id.run do
    let mut a : Array Float := Array.replicate (total * total) 0.0
    for s1 in [0:ncarts.size] do
      for s2 in [0:ncarts.size] do
        let b := blk s1 s2
        if b.r == ncarts[s1]! && b.c == ncarts[s2]! then
          for i in [0:b.r] do
            for j in [0:b.c] do
              a := a.set! ((offs[s1]! + i) * total + offs[s2]! + j) (b.get i j)
    return ⟨total, total, a⟩

def finish (q : Req) : List String :=
  if q.bad then ["bad-op"] else
  let cs := q.shells.toList.map fun s => (s.1, s.2.1, s.2.2.1)
  let ids := atomIds ⟨close⟩ cs q.ecps.toList
  let ncarts := q.shells.map (·.2.2.2)
  let S : System Mat :=
    { nshells := q.shells.size, necps := q.ecps.size, ids := ids
      kept := fun s u => q.kept.getD (s, u) false
      int := fun s1 s2 u => q.ib.getD (s1, s2, u, 0) Mat.zero
      d1 := fun s1 s2 u i => q.db.getD (s1, s2, u, i) Mat.zero
      d2 := fun s1 s2 u i => q.hb.getD (s1, s2, u, i) Mat.zero }
  let zeroBlk := fun (s1 s2 : Nat) (m : Mat) =>
    if m.r == 0 then Mat.ofFn ncarts[s1]! ncarts[s2]! (fun _ _ => 0.0) else m
  let head := "ids " ++ " ".intercalate (ids.shell.map toString) ++ " | " ++
              " ".intercalate (ids.ecp.map toString) ++ s!" | {ids.natoms}"
  let I := assemble ncarts fun s1 s2 => zeroBlk s1 s2 (intFull S s1 s2)
  let ds := if q.deriv ≥ 1 then (List.range (nFirst S)).map fun k =>
      s!"D {k} " ++ showMat (assemble ncarts fun s1 s2 => zeroBlk s1 s2 (fullBlock (d1Block S k) s1 s2)) else []
  let hs := if q.deriv ≥ 2 then (List.range (nSecond S)).map fun k =>
      s!"H {k} " ++ showMat (assemble ncarts fun s1 s2 => zeroBlk s1 s2 (fullBlock (d2Block S k) s1 s2)) else []
  [head, s!"I {I.r} " ++ showMat I] ++ ds ++ hs

end Driver.Api
