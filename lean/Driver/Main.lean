import Driver.History
import Driver.Copy
import Driver.Api
import Driver.Deriv
import Driver.Ecp
import Driver.Bessel
import Driver.Quad
import Driver.Radial
import Driver.Angular
import Driver.Pair
/-! Model driver.  Single-line requests: first token selects the layer.
Multi-line requests: `begin <layer>` … `end`. -/

def tokens (line : String) : List String :=
  (line.trimAscii.toString.splitOn " ").filter (· ≠ "")

def radialEnv : Thunk Driver.Radial.Env := Thunk.mk fun _ => Driver.Radial.mkEnv

def dispatch (toks : List String) : List String :=
  match toks with
  | "radial" :: rest => Driver.Radial.handle radialEnv.get rest
  | "angular" :: rest => Driver.Angular.handle rest
  | "rsh" :: rest => Driver.Angular.handleRsh rest
  | "history" :: rest => Driver.History.handle rest
  | "copy" :: rest => Driver.Copy.handle rest
  | "ecp" :: rest => Driver.Ecp.handle rest
  | "bessel" :: rest => Driver.Bessel.handle rest
  | "besselrow" :: rest => Driver.Bessel.handleRows rest
  | [] => []
  | _ => ["bad-layer"]

inductive Mode
  | idle
  | api (q : Driver.Api.Req)
  | deriv (q : Driver.Deriv.Req)
  | quad (q : Driver.Quad.Req)
  | pair (q : Driver.Pair.Req)

partial def loop (h : IO.FS.Stream) (out : IO.FS.Stream) (m : Mode) (cache : Driver.Pair.Cache := {}) : IO Unit := do
  let line ← h.getLine
  if line.isEmpty then return ()
  let toks := tokens line
  match m, toks with
  | .idle, ["begin", "api"] => loop h out (.api {}) cache
  | .idle, ["begin", "deriv"] => loop h out (.deriv {}) cache
  | .idle, ["begin", "quad"] => loop h out (.quad {}) cache
  | .idle, ["begin", "pair"] => loop h out (.pair {}) cache
  | .idle, _ =>
    for l in dispatch toks do out.putStrLn l
    loop h out .idle cache
  | .api q, ["end"] =>
    for l in Driver.Api.finish q do out.putStrLn l
    out.putStrLn "end"
    out.flush   -- a session may keep the driver alive across batches (the engine cache lives in this loop)
    loop h out .idle cache
  | .api q, _ => loop h out (.api (Driver.Api.feed q toks)) cache
  | .deriv q, ["end"] =>
    for l in Driver.Deriv.finish q do out.putStrLn l
    out.putStrLn "end"
    out.flush   -- a session may keep the driver alive across batches (the engine cache lives in this loop)
    loop h out .idle cache
  | .deriv q, _ => loop h out (.deriv (Driver.Deriv.feed q toks)) cache
  | .quad q, ["end"] =>
    for l in Driver.Quad.finish q do out.putStrLn l
    out.putStrLn "end"
    out.flush   -- a session may keep the driver alive across batches (the engine cache lives in this loop)
    loop h out .idle cache
  | .quad q, _ => loop h out (.quad (Driver.Quad.feed q toks)) cache
  | .pair q, ["end"] =>
    for l in Driver.Pair.finish q do out.putStrLn l
    out.putStrLn "end"
    out.flush   -- a session may keep the driver alive across batches (the engine cache lives in this loop)
    loop h out .idle cache
  | .pair q, _ =>
    let (c', q') := Driver.Pair.feed cache q toks
    loop h out (.pair q') c'

def main : IO Unit := do
  let out ← IO.getStdout
  loop (← IO.getStdin) out .idle
  out.flush
