import Driver.History
import Driver.Copy
/-! Model driver: one request per input line, first token selects the layer. -/

def dispatch (line : String) : List String :=
  match (line.trimAscii.toString.splitOn " ").filter (· ≠ "") with
  | "history" :: rest => Driver.History.handle rest
  | "copy" :: rest => Driver.Copy.handle rest
  | [] => []
  | _ => ["bad-layer"]

partial def loop (h : IO.FS.Stream) (out : IO.FS.Stream) : IO Unit := do
  let line ← h.getLine
  if line.isEmpty then return ()
  for l in dispatch line do
    out.putStrLn l
  loop h out

def main : IO Unit := do
  let out ← IO.getStdout
  loop (← IO.getStdin) out
  out.flush
