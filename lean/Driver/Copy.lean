import Ecpint.Model.GShell
import Ecpint.Gen.CopySem
/-! line protocol, layer `copy`:
  in : `copy <op> <op> ...`
       X<b>,<l> newExt | L<a>,<l> newLocal | C<src> copy-ctor | M<src> copy() | A<dst>,<src> assign
       P<o>,<e>,<c> addPrim | W<o>,<v> setLocal | T<o>,<v> setAtom | B<b>,<v> setExt | D<o> destroy
  out: one line per op `c <k> <obj> <obj> ...`, each live object as
       `<id>:e=<exps>;c=<coeffs>;x=<centre>;m=<minExp>;l=<l>;a=<atomId>;p=<own|ext<b>|foreign<o>|dangling>` -/
namespace Driver.Copy
open Ecpint.GShell

def nats (s : String) : Option (List Nat) := (s.splitOn ",").mapM (·.toNat?)

def parseOp (t : String) : Option Op :=
  let body := (t.drop 1).toString
  match (t.take 1).toString, nats body with
  | "X", some [b, l] => some (.newExt b l)
  | "L", some [a, l] => some (.newLocal a l)
  | "C", some [s] => some (.copyCtor s)
  | "M", some [s] => some (.copyM s)
  | "A", some [d, s] => some (.assign d s)
  | "P", some [o, e, c] => some (.addPrim o e c)
  | "W", some [o, v] => some (.setLocal o v)
  | "T", some [o, v] => some (.setAtom o v)
  | "B", some [b, v] => some (.setExt b v)
  | "D", some [o] => some (.destroy o)
  | _, _ => none

def showOpt : Option Nat → String
  | some v => toString v
  | none => "?"

def showList (l : List Nat) : String := if l.isEmpty then "-" else ",".intercalate (l.map toString)

def ptrClass (h : Heap) (o : Nat) (s : Shell) : String :=
  match s.centerVec with
  | .ext b => s!"ext{b}"
  | .loc o' => if o' = o then "own" else match h.objs o' with
                                          | some _ => s!"foreign{o'}"
                                          | none => "dangling"
  | .wild => "dangling"

def showCentre (h : Heap) (s : Shell) : String :=
  match center h s with
  | .val v => showOpt v
  | .dangling => "!"

def showObj (h : Heap) (o : Nat) (s : Shell) : String :=
  s!"{o}:e={showList s.exps};c={showList s.coeffs};x={showCentre h s};m={showOpt s.minExp};l={showOpt s.l};a={showOpt s.atomId};p={ptrClass h o s}"

def showHeap (k : Nat) (h : Heap) : String :=
  let objs := (List.range h.next).filterMap fun o => (h.objs o).map (showObj h o)
  s!"c {k} " ++ " ".intercalate objs

/-- operations the real harness would refuse (dead or unknown objects) are rejected, not defaulted -/
def valid (h : Heap) : Op → Bool
  | .copyCtor s | .copyM s => (h.objs s).isSome
  | .assign d s => (h.objs d).isSome && (h.objs s).isSome
  | .addPrim o _ _ | .setLocal o _ | .setAtom o _ | .destroy o => (h.objs o).isSome
  | _ => true

def handle (toks : List String) : List String :=
  let rec go (k : Nat) (h : Heap) : List String → List String
    | [] => []
    | t :: ts =>
      match parseOp t with
      | none => ["bad-op"]
      | some op =>
        if !valid h op then ["bad-op"] else
        let h' := step Ecpint.Gen.shellSems h op
        showHeap k h' :: go (k + 1) h' ts
  go 0 Heap.empty toks

end Driver.Copy
