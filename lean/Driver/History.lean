import Ecpint.Model.History
import Ecpint.Gen.ApiInit
/-! line protocol, layer `history`:
  in : `history <natoms> <op> <op> ...`   ops: `S<g>` `E<g>` `I` `D1` `D2`
  out: one line per op: `h <k> cur=<s>,<e> ints=<slot> d1=<n>:<slot>|<slot>... d2=<n>:...`
  a slot is `+`-joined `s.e` pairs, `0` when empty -/
namespace Driver.History
open Ecpint.History

def parseOp (t : String) : Option Op :=
  if t == "I" then some .compI
  else if t == "D1" then some .compD1
  else if t == "D2" then some .compD2
  else if t.startsWith "S" then (t.drop 1).toNat?.map .updShells
  else if t.startsWith "E" then (t.drop 1).toNat?.map .updEcps
  else none

def showSlot (s : Slot) : String :=
  if s.isEmpty then "0" else "+".intercalate (s.map fun c => s!"{c.shells}.{c.ecps}")

def showSlots (l : List Slot) : String :=
  s!"{l.length}:" ++ "|".intercalate (l.map showSlot)

def showState (k : Nat) (s : State) : String :=
  s!"h {k} cur={s.cur.shells},{s.cur.ecps} ints={showSlot s.ints} d1={showSlots s.d1} d2={showSlots s.d2}"

def handle (toks : List String) : List String :=
  match toks with
  | n :: ops =>
    match n.toNat? with
    | none => ["bad-op"]
    | some natoms =>
      let cfg : Cfg := { intsInit := Ecpint.Gen.apiIntsInit, d1Init := Ecpint.Gen.apiD1Init,
                         d2Init := Ecpint.Gen.apiD2Init, natoms := natoms }
      let rec go (k : Nat) (s : State) : List String → List String
        | [] => []
        | t :: ts =>
          match parseOp t with
          | none => ["bad-op"]
          | some op =>
            let s' := step cfg s op
            showState k s' :: go (k + 1) s' ts
      go 0 (init ⟨0, 0⟩) ops
  | [] => ["bad-op"]

end Driver.History
