import Driver.FloatMat
import Ecpint.Gen.EcpData
import Ecpint.Gen.PowFns
import Ecpint.Gen.Constants
/-! layer `ecp`: `ecp <set> <element> <r-hex>*`
out: `E <name> <ncore> <maxl> <N> <L> <lstart,...>` ; `G <l> <n> <a-mant> <a-scale> <d-mant> <d-scale>` per stored
primitive ; `V <l> <r-hex> <value-hex>` per (l ≤ maxl, r) ; `end` -/
namespace Driver.Ecp
open Ecpint.EcpLoad Ecpint.Gen

instance : One Float := ⟨1.0⟩

def decToFloat (d : Dec) : Float :=
  let v := Float.ofScientific d.mant.natAbs true d.scale
  if d.mant < 0 then -v else v

def handle (toks : List String) : List String :=
  match toks with
  | set :: name :: rs =>
    match shippedSets.find? (·.1 == set), floats rs with
    | some (_, _, atoms), some radii =>
      match atoms.find? (·.name == name) with
      | none => ["no-such-element", "end"]
      | some at' =>
        let s := loadAtom LIBECPINT_MAX_L at'
        let head := s!"E {at'.name} {at'.ncore} {at'.maxl} {s.N} {s.L} " ++ ",".intercalate (s.lStarts.map toString)
        let gs := s.gaussians.map fun g => s!"G {g.l} {g.n} {g.a.mant} {g.a.scale} {g.d.mant} {g.d.scale}"
        let vs := (List.range (at'.maxl + 1)).flatMap fun l => radii.toList.map fun r =>
          s!"V {l} {hexOfFloat r} " ++
            hexOfFloat (evaluate (fun i z => fastPow i z) Float.exp decToFloat MAX_POW s r l)
        [head] ++ gs ++ vs ++ ["end"]
    | _, _ => ["bad-op", "end"]
  | _ => ["bad-op", "end"]

end Driver.Ecp
