import Driver.FloatMat
import Ecpint.Model.Deriv
/-! layer `deriv` (multi-line request; producer: harness/corr_deriv.cpp)
  p <LA> <LB> <aOff> <bOff>
  b <name> <r> <c> <v>*   names: Am Ap Bm Bp (first) | AAm AA0 AAp BBm BB0 BBp Mmm Mmp Mpm Mpp (second)
out: `QA q ..` `QB q ..` `R1 i ..` and/or `QAA c ..` `QBB c ..` `QAB c ..` `R2 i ..`, each `<r> <c> <v>*` -/
namespace Driver.Deriv
open Ecpint.Deriv

instance : NatCast Float := ⟨Float.ofNat⟩

structure Req where
  LA : Nat := 0
  LB : Nat := 0
  aOff : Bool := true
  bOff : Bool := true
  blks : List (String × Mat) := []
  bad : Bool := false

def feed (q : Req) (ts : List String) : Req :=
  match ts with
  | ["p", la, lb, a, b] =>
    match la.toNat?, lb.toNat?, a.toNat?, b.toNat? with
    | some la, some lb, some a, some b => { q with LA := la, LB := lb, aOff := a != 0, bOff := b != 0 }
    | _, _, _, _ => { q with bad := true }
  | "b" :: name :: r :: c :: vs =>
    match r.toNat?, c.toNat?, floats vs with
    | some r, some c, some d => if d.size = r * c then { q with blks := (name, ⟨r, c, d⟩) :: q.blks } else { q with bad := true }
    | _, _, _ => { q with bad := true }
  | _ => { q with bad := true }

def blk (q : Req) (n : String) : Option Mat := (q.blks.find? (·.1 == n)).map (·.2)
def fn (m : Mat) : Blk Float := fun i j => m.get i j
def emit (tag : String) (i r c : Nat) (f : Blk Float) : String :=
  let m := Mat.ofFn r c f
  s!"{tag} {i} {r} {c} " ++ showMat m

def finish (q : Req) : List String :=
  if q.bad then ["bad-op"] else
  let nA := ncart q.LA
  let nB := ncart q.LB
  let z : Mat := Mat.zero
  let first : List String :=
    match blk q "Ap", blk q "Bp" with
    | some ap, some bp =>
      let am := (blk q "Am").getD z
      let bm := (blk q "Bm").getD z
      -- a routine that was not called leaves its result matrices empty; the model's pairFirst never reads them
      let QA := fun k => leftFirst q.LA am.r (fn am) (fn ap) k
      let QB := fun k => leftFirst q.LB bm.r (fn bm) (fn bp) k
      ((List.range 3).map fun k => emit "QA" k nA nB (QA k)) ++
      ((List.range 3).map fun k => emit "QB" k nB nA (QB k)) ++
      ((List.range 9).map fun i => emit "R1" i nA nB (pairFirst q.aOff q.bOff QA QB i))
    | _, _ => []
  let second : List String :=
    match blk q "AAm", blk q "AA0", blk q "AAp", blk q "BBm", blk q "BB0", blk q "BBp" with
    | some aam, some aa0, some aap, some bbm, some bb0, some bbp =>
      match blk q "Mmm", blk q "Mmp", blk q "Mpm", blk q "Mpp" with
      | some mmm, some mmp, some mpm, some mpp =>
        let QAA := fun c => leftSecond q.LA aam.r (fn aam) (fn aa0) (fn aap) c
        let QBB := fun c => leftSecond q.LB bbm.r (fn bbm) (fn bb0) (fn bbp) c
        let QAB := fun c => mixedSecond q.LA q.LB mmm.r mmm.c (fn mmm) (fn mmp) (fn mpm) (fn mpp) c
        ((List.range 6).map fun c => emit "QAA" c nA nB (QAA c)) ++
        ((List.range 6).map fun c => emit "QBB" c nB nA (QBB c)) ++
        ((List.range 9).map fun c => emit "QAB" c nA nB (QAB c)) ++
        ((List.range 45).map fun i => emit "R2" i nA nB (pairSecond q.aOff q.bOff QAA QBB QAB i))
      | _, _, _, _ => []
    | _, _, _, _, _, _ => []
  first ++ second

end Driver.Deriv
