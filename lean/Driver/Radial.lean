import Driver.FloatMat
import Ecpint.Model.RadialGen
/-! layer `radial`: `radial <nbase> <un> <ua> <a> <A> <b> <B> <daw1> <daw2> <N> <l1> <l2> <erf>` (hex bits)
out: `R <value> <closed|quad|screened> <cut>` `E <estimate>` `Q <value> <conv> <cut>` `N <value> <conv> <argmax>` (no tail cut: counterfactual; index of the largest tabulated value) `V <values>` `end` -/
namespace Driver.Radial
open Ecpint Ecpint.RadialGen

instance : NatCast Float := ⟨Float.ofNat⟩
instance : IntCast Float := ⟨Float.ofInt⟩
instance : One Float := ⟨1.0⟩
instance : Flt Float :=
  { exp := Float.exp, log := Float.log, sqrt := Float.sqrt, sin := Float.sin, cos := Float.cos, atan2 := Float.atan2,
    abs := Float.abs, pi := 3.14159265358979323846, floorNat := fun x => (Float.floor x).toUInt64.toNat,
    ofRat := fun n d => Float.ofInt n / Float.ofNat d,
    decLt := fun a b => inferInstanceAs (Decidable (a < b)), decLe := fun a b => inferInstanceAs (Decidable (a ≤ b)) }

def ratF (n : Int) (d : Nat) : Float := Float.ofInt n / Float.ofNat d
def smallF : Float := ratF Gen.SMALL_num Gen.SMALL_den
def tolF : Float := ratF Gen.RADIAL_THRESH_DEFAULT_num Gen.RADIAL_THRESH_DEFAULT_den
def minExpF : Float := ratF Gen.MIN_EXP_num Gen.MIN_EXP_den
def rootPiF : Float := ratF Gen.ROOT_PI_num Gen.ROOT_PI_den

structure Env where
  prim : Quad.Grid Float
  bessel : Bessel.Table Float

def mkEnv : Env :=
  { prim := Quad.initGrid Gen.PRIM_GRID .onePoint,
    bessel := Bessel.build (3 * Gen.LIBECPINT_MAX_L) Gen.BESSEL_N Gen.BESSEL_ORDER tolF }

def pathName : Path → String
  | .closed => "closed" | .quad => "quad" | .screened => "screened"

def handle (env : Env) (toks : List String) : List String :=
  match toks with
  | [nbase, un, ua, a, A, b, B, d1, d2, N, l1, l2, erfv] =>
    match nbase.toNat?, un.toInt?, floats [ua, a, A, b, B, d1, d2, erfv], N.toNat?, l1.toNat?, l2.toNat? with
    | some nbase, some un, some f, some N, some l1, some l2 =>
      let ua := f[0]!; let a := f[1]!; let A := f[2]!; let b := f[3]!; let B := f[4]!
      let r := primitive env.prim env.bessel smallF tolF minExpF rootPiF nbase un ua a b A B f[5]! f[6]! N l1 l2 f[7]!
      let k : Nat := ((N : Int) + un + 2).toNat
      let e := estimateType2 env.bessel k l1 l2 ua a b A B f[7]!
      let q := integrateSmall env.prim env.bessel smallF tolF k l1 l2 ua a b A B
      let qn := integrateSmall env.prim env.bessel smallF tolF k l1 l2 ua a b A B false
      let qf := integrateSmall env.prim env.bessel smallF tolF k l1 l2 ua a b A B false true
      let p := ua + a + b; let x := a * A; let y := b * B
      let P1 := (x + y) / p; let P2 := (y - x) / p; let P1sq := P1 * P1; let P2sq := P2 * P2
      let oP2 : Float := if Float.abs P2 < 1e-7 then 0 else 1 / P2sq
      let aAbB := a * A * A + b * B * B; let Kab : Float := 1 / (16 * x * y)
      let X1 := Float.exp (p * P1sq - aAbB) * Kab; let X2 := Float.exp (p * P2sq - aAbB) * Kab
      let v := baseIntegrals 2 (3 + nbase) p (1 / Float.sqrt p) P1 P2 P1sq P2sq X1 X2 (1 / P1sq) oP2 rootPiF
      [s!"R {hexOfFloat r.1} {pathName r.2.1} {r.2.2}", s!"E {hexOfFloat e}",
       s!"Q {hexOfFloat q.1} {if q.2.1 then 1 else 0} {q.2.2.1}",
       s!"N {hexOfFloat qn.1} {if qn.2.1 then 1 else 0} {qn.2.2.2}",
       s!"F {hexOfFloat qf.1}",
       "V " ++ " ".intercalate ((v.toList.take (nbase + 2)).map hexOfFloat), "end"]
    | _, _, _, _, _, _ => ["bad-op", "end"]
  | _ => ["bad-op", "end"]

end Driver.Radial
