import Driver.FloatMat
import Ecpint.Model.Quad
/-! layer `quad` (multi-line): `grid <0|1> <points>` ; `zeroinf` | `rminmax <z> <p>` ; `f <v>*` ; `int <tol> <start> <end>`
out: `G <maxN> <M>` `X …` `W …` after the transforms, then `I <value> <0|1>` per `int` -/
namespace Driver.Quad
open Ecpint.Quad

instance : NatCast Float := ⟨Float.ofNat⟩
instance : One Float := ⟨1.0⟩
def pi : Float := 3.14159265358979323846
instance : Num Float :=
  { sin := Float.sin, cos := Float.cos, log := Float.log, sqrt := Float.sqrt, abs := Float.abs, pi := pi,
    floorNat := fun x => (Float.floor x).toUInt64.toNat,
    decLt := fun a b => inferInstanceAs (Decidable (a < b)), decLe := fun a b => inferInstanceAs (Decidable (a ≤ b)) }

structure Req where
  g : Option (Grid Float) := none
  f : Array Float := #[]
  out : List String := []
  bad : Bool := false

def feed (q : Req) (ts : List String) : Req :=
  match ts with
  | ["grid", t, n] =>
    match t.toNat?, n.toNat? with
    | some t, some n => { q with g := some (initGrid n (if t = 0 then .onePoint else .twoPoint)) }
    | _, _ => { q with bad := true }
  | ["zeroinf"] => { q with g := q.g.map transformZeroInf }
  | ["rminmax", z, p] =>
    match floatOfHex z, floatOfHex p with
    | some z, some p => { q with g := q.g.map fun g => transformRMinMax g z p }
    | _, _ => { q with bad := true }
  | "f" :: vs => match floats vs with
    | some a => { q with f := a }
    | none => { q with bad := true }
  | ["dump"] =>
    match q.g with
    | some g => { q with out := q.out ++ [s!"G {g.maxN} {g.M}", "X " ++ " ".intercalate (g.x.toList.map hexOfFloat), "W " ++ " ".intercalate (g.w.toList.map hexOfFloat)] }
    | none => { q with bad := true }
  | ["int", tol, a, b] =>
    match q.g, floatOfHex tol, a.toNat?, b.toNat? with
    | some g, some tol, some a, some b =>
      let r := integrate g (fun ix => q.f.getD ix 0.0) tol a b
      { q with out := q.out ++ [s!"I {hexOfFloat r.1} {if r.2 then 1 else 0}"] }
    | _, _, _, _ => { q with bad := true }
  | _ => { q with bad := true }

def finish (q : Req) : List String := if q.bad then ["bad-op"] else q.out

end Driver.Quad
