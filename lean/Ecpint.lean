-- Root of the `Ecpint` library: models, generated data, property theorems.
import Ecpint.Props.C05
