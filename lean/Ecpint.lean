-- Root of the `Ecpint` library: models, generated data, property theorems (one root per property).
import Ecpint.Props.C01
import Ecpint.Props.C02All
import Ecpint.Props.C03All
import Ecpint.Props.C04
import Ecpint.Props.C05
import Ecpint.Props.C06All
import Ecpint.Props.C07All
import Ecpint.Props.C08All
import Ecpint.Props.C09All
import Ecpint.Props.C10
import Ecpint.Props.C11
import Ecpint.Props.C12All
import Ecpint.Props.C13
import Ecpint.Props.C14All
import Ecpint.Props.C15All
import Ecpint.Props.C16
import Ecpint.Props.C17
