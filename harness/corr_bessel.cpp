// C14 correspondence driver: the real BesselFunction, initialised as RadialIntegral::init does.
//   `bessel <lMax> <z-bits>*`    → `A <z> v..` (all-orders evaluator, vector pre-filled with 7.0), `O <z> v..` (single-order
//                                   evaluator, one call per order), `U <z> v..` (upper_bound)
//   `besselrow <lMax> <i>*`      → `K <i> ..`, `D <i> <n> ..` (private tables, read with -fno-access-control)
#include "common.hpp"
#include "libecpint/bessel.hpp"
#include "libecpint/mathutil.hpp"
using namespace libecpint;
static std::string bits(double v) { unsigned long long u; memcpy(&u, &v, 8); char b[32]; snprintf(b, sizeof b, "%016llx", u); return b; }
static double unbits(const std::string &s) { unsigned long long u = strtoull(s.c_str(), nullptr, 16); double d; memcpy(&d, &u, 8); return d; }
int main() {
	initFactorials();
	std::map<int, BesselFunction*> cache;
	std::string line;
	while (std::getline(std::cin, line)) {
		auto t = vh::split(line);
		if (t.size() < 2) continue;
		int lMax = vh::I(t[1]);
		if (!cache.count(lMax)) cache[lMax] = new BesselFunction(lMax, 1600, 200, 1e-15);
		BesselFunction &bf = *cache[lMax];
		if (t[0] == "bessel") {
			for (size_t k = 2; k < t.size(); k++) {
				double z = unbits(t[k]);
				std::vector<double> v(lMax + 1, 7.0);
				bf.calculate(z, lMax, v);
				std::cout << "A " << bits(z); for (double x : v) std::cout << " " << bits(x); std::cout << "\n";
				std::cout << "O " << bits(z); for (int L = 0; L <= lMax; L++) std::cout << " " << bits(bf.calculate(z, L)); std::cout << "\n";
				std::cout << "U " << bits(z); for (int L = 0; L <= lMax; L++) std::cout << " " << bits(bf.upper_bound(z, L)); std::cout << "\n";
			}
		} else if (t[0] == "besselrow") {
			for (size_t k = 2; k < t.size(); k++) {
				int i = vh::I(t[k]);
				std::cout << "K " << i; for (double x : bf.K[i]) std::cout << " " << bits(x); std::cout << "\n";
				for (int n = 0; n < TAYLOR_CUT + 1; n++) { std::cout << "D " << i << " " << n; for (double x : bf.dK[i][n]) std::cout << " " << bits(x); std::cout << "\n"; }
			}
		}
	}
	return 0;
}
