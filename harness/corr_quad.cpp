// C15 correspondence driver: the real GCQuadrature.
//   `case <type 0|1> <points> <transform: none | zeroinf | rminmax z p> ; poly <k> gauss <zeta> <centre> ; tol <t>* ; range <start> <end>`
//   written as tokens:  case T N  tr ...  k zeta c  ntol t1..  start end     (start/end = -1: whole grid)
//   `> ` lines: the request for the Lean driver (layer quad) incl. the tabulated integrand
//   `< ` lines: `G maxN M`, `X..`, `W..` (after the transform), `I value conv` per tolerance
//   `# ` line : `x0 xN` the integration window actually covered by the grid (for the oracle)
#include "common.hpp"
#include "libecpint/gaussquad.hpp"
#include <functional>
using namespace libecpint;
static std::string bits(double v) { unsigned long long u; memcpy(&u, &v, 8); char b[32]; snprintf(b, sizeof b, "%016llx", u); return b; }
static long n_evals = 0;
static double tab(double, const double *p, int ix) { n_evals++; return p[ix]; }
int main() {
	std::string line;
	while (std::getline(std::cin, line)) {
		auto t = vh::split(line);
		if (t.empty() || t[0] != "case") continue;
		size_t k = 1;
		int type = vh::I(t[k++]), points = vh::I(t[k++]);
		GCQuadrature q; q.initGrid(points, type == 0 ? ONEPOINT : TWOPOINT);
		std::ostream &o = std::cout;
		o << "> begin quad\n> grid " << type << " " << points << "\n";
		std::string tr = t[k++];
		if (tr == "zeroinf") { q.transformZeroInf(); o << "> zeroinf\n"; }
		double rz = 1.0, rp = 0.0;
		if (tr == "rminmax") { double z = vh::D(t[k++]), p = vh::D(t[k++]); rz = z; rp = p; q.transformRMinMax(z, p); o << "> rminmax " << bits(z) << " " << bits(p) << "\n"; }
		int pw = vh::I(t[k++]); double zeta = vh::D(t[k++]), c = vh::D(t[k++]);
		int ntol = vh::I(t[k++]); std::vector<double> tols; for (int i = 0; i < ntol; i++) tols.push_back(vh::D(t[k++]));
		int start = vh::I(t[k++]), end = vh::I(t[k++]);
		int N = q.getN();
		if (start < 0) { start = 0; end = N - 1; }
		if (end > N - 1) end = N - 1;
		if (start > end) start = end;
		std::vector<double> f(N);
		const std::vector<double> &x = q.getX();
		for (int i = 0; i < N; i++) { double r = x[i], v = std::exp(-zeta * (r - c) * (r - c)); for (int j = 0; j < pw; j++) v *= r; f[i] = (i < start || i > end) ? 0.0 : v; }
		o << "> f"; for (double v : f) o << " " << bits(v); o << "\n> dump\n";
		o << "< G " << N << " " << q.M << "\n< X"; for (double v : x) o << " " << bits(v); o << "\n< W"; for (double v : q.w) o << " " << bits(v); o << "\n";
		std::function<double(double, const double*, int)> fn = tab;
		for (double tol : tols) {
			auto r = q.integrate(fn, f.data(), tol, start, end);
			o << "> int " << bits(tol) << " " << start << " " << end << "\n";
			o << "< I " << bits(r.first) << " " << (r.second ? 1 : 0) << "\n";
		}
		// correspondence only (the oracle reads the first ntol results): loose tolerances, so that the FIRST acceptance tests of both
		// schemes decide the outcome - with the property's tolerances they never pass, and a change to them would stay invisible
		for (double tol : {1e3, 1e2, 1e1, 1.0, 1e-1, 1e-2, 1e-3, 1e-4, 1e-5, 1e-6, 1e-7}) {
			auto r = q.integrate(fn, f.data(), tol, start, end);
			o << "> int " << bits(tol) << " " << start << " " << end << "\n";
			o << "< I " << bits(r.first) << " " << (r.second ? 1 : 0) << "\n";
		}
		{ // an object that is initialised and transformed, then initialised and transformed AGAIN must hold the same grid as a fresh one
			GCQuadrature q2; q2.initGrid(points, type == 0 ? ONEPOINT : TWOPOINT);
			if (tr == "zeroinf") q2.transformZeroInf();
			else if (tr == "rminmax") q2.transformRMinMax(zeta > 0 ? 0.5 * zeta + 0.1 : 1.0, c + 0.3);
			q2.initGrid(points, type == 0 ? ONEPOINT : TWOPOINT);
			if (tr == "zeroinf") q2.transformZeroInf();
			else if (tr == "rminmax") q2.transformRMinMax(rz, rp);
			auto r = q2.integrate(fn, f.data(), tols.empty() ? 1e-10 : tols[0], start, end);
			o << "> int " << bits(tols.empty() ? 1e-10 : tols[0]) << " " << start << " " << end << "\n";
			o << "< I " << bits(r.first) << " " << (r.second ? 1 : 0) << "\n";
		}
		{ // trace for the attribution of deviations: evaluations used at acceptance, and the finest-level value (tolerance 0: never accepted early)
			o << "# T";
			for (double tol : tols) { n_evals = 0; auto r = q.integrate(fn, f.data(), tol, start, end); o << " " << n_evals; (void)r; }
			n_evals = 0; auto r0 = q.integrate(fn, f.data(), 0.0, start, end);
			o << " finest " << bits(r0.first) << " " << n_evals << "\n";
		}
		o << "> end\n< end\n";
		o << "# " << bits(x[start]) << " " << bits(x[end]) << " " << start << " " << end << " " << N << "\n";
	}
	return 0;
}
