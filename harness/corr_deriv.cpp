// C02/C03 correspondence / search driver.
//   system lines (common.hpp): shells, ECPs, one geometry; then
//   `deriv <sA> <sB> <u> <order>` : for the pair (shell sA, shell sB) and ECP u
//      `> ` lines: request for the Lean driver (layer deriv): the shifted-shell blocks obtained from the
//                  real compute_shell_pair through its public shift arguments, with the coefficient
//                  scaling the derivative routines are documented to use;
//      `< ` lines: what the real routines return, in the driver's output format.
//   `block <sA> <sB> <u> <dA0> <dA1> <dA2> <dB..> <dC..>` : compute_shell_pair with the three centres displaced
//      (finite-difference oracle), output `< I r c v..`
#include "common.hpp"
using namespace libecpint;

static std::string bits(double v) { unsigned long long u; memcpy(&u, &v, 8); char b[32]; snprintf(b, sizeof b, "%016llx", u); return b; }
static void mat(std::ostream &o, const TwoIndex<double> &m) { o << " " << m.dims[0] << " " << m.dims[1]; for (double v : m.data) o << " " << bits(v); }

static GaussianShell scaled(const GaussianShell &s, int times) {
	GaussianShell t = s.copy();
	for (int k = 0; k < times; k++) for (int i = 0; i < t.nprimitive(); i++) t.coeffs[i] *= t.exps[i];
	return t;
}
static int nc(int L) { return (L + 1) * (L + 2) / 2; }

struct Ctx { ECPIntegral *eng; const ECP *U; };

static void first_blocks(std::ostream &o, const Ctx &c, const char *m, const char *p, const GaussianShell &A, const GaussianShell &B) {
	TwoIndex<double> Q;
	if (A.am() != 0) { c.eng->compute_shell_pair(*c.U, A, B, Q, -1, 0); o << "> b " << m; mat(o, Q); o << "\n"; }
	GaussianShell tA = scaled(A, 1);
	c.eng->compute_shell_pair(*c.U, tA, B, Q, 1, 0); o << "> b " << p; mat(o, Q); o << "\n";
}
static void second_blocks(std::ostream &o, const Ctx &c, const char *m, const char *z, const char *p, const GaussianShell &A, const GaussianShell &B) {
	TwoIndex<double> Q;
	int LA = A.am();
	if (LA > 1) c.eng->compute_shell_pair(*c.U, A, B, Q, -2, 0); else Q.assign(std::max(1, (LA - 1) * LA / 2), nc(B.am()), 0.0);
	o << "> b " << m; mat(o, Q); o << "\n";
	GaussianShell t1 = scaled(A, 1), t2 = scaled(A, 2);
	c.eng->compute_shell_pair(*c.U, t1, B, Q, 0, 0); o << "> b " << z; mat(o, Q); o << "\n";
	c.eng->compute_shell_pair(*c.U, t2, B, Q, 2, 0); o << "> b " << p; mat(o, Q); o << "\n";
}
static void mixed_blocks(std::ostream &o, const Ctx &c, const GaussianShell &A, const GaussianShell &B) {
	int LA = A.am(), LB = B.am();
	int am = std::max(1, LA * (LA + 1) / 2), bm = std::max(1, LB * (LB + 1) / 2), ap = nc(LA + 1), bp = nc(LB + 1);
	GaussianShell tA = scaled(A, 1), tB = scaled(B, 1);
	TwoIndex<double> mm, mp, pm, pp;
	if (LA > 0) {
		if (LB > 0) { c.eng->compute_shell_pair(*c.U, A, B, mm, -1, -1); c.eng->compute_shell_pair(*c.U, tA, B, pm, 1, -1); }
		else { mm.assign(am, bm, 0.0); pm.assign(ap, bm, 0.0); }
		c.eng->compute_shell_pair(*c.U, A, tB, mp, -1, 1);
	} else if (LB > 0) {
		c.eng->compute_shell_pair(*c.U, tA, B, pm, 1, -1); mm.assign(am, bm, 0.0); mp.assign(am, bp, 0.0);
	} else { mm.assign(am, bm, 0.0); mp.assign(am, bp, 0.0); pm.assign(ap, bm, 0.0); }
	c.eng->compute_shell_pair(*c.U, tA, tB, pp, 1, 1);
	o << "> b Mmm"; mat(o, mm); o << "\n> b Mmp"; mat(o, mp); o << "\n> b Mpm"; mat(o, pm); o << "\n> b Mpp"; mat(o, pp); o << "\n";
}

int main() {
	vh::System sys;
	std::string line;
	while (std::getline(std::cin, line)) {
		auto t = vh::split(line);
		if (t.empty() || t[0][0] == '#') continue;
		if (sys.parse_line(t)) continue;
		if (t[0] != "deriv" && t[0] != "block" && t[0] != "shiftcheck") { std::cout << "bad-line " << line << "\n"; continue; }
		int sA = vh::I(t[1]), sB = vh::I(t[2]), u = vh::I(t[3]);
		const auto &G = sys.geoms.at(0);
		auto mk = [&](int s, const double *d) { const auto &S = sys.shells[s]; std::array<double, 3> c = {G[3*S.atom] + d[0], G[3*S.atom+1] + d[1], G[3*S.atom+2] + d[2]}; GaussianShell g(c, S.l); for (size_t i = 0; i < S.e.size(); i++) g.addPrim(S.e[i], S.c[i]); return g; };
		auto mkU = [&](int k, const double *d) { const auto &E = sys.ecps[k]; double c[3] = {G[3*E.atom] + d[0], G[3*E.atom+1] + d[1], G[3*E.atom+2] + d[2]}; ECP U(c); for (auto &p : E.prims) U.addPrimitive(p.n, p.l, p.a, p.d); U.sort(); return U; };
		int maxL = std::max(sys.shells[sA].l, sys.shells[sB].l);
		if (t[0] == "block") {
			double d[9]; for (int i = 0; i < 9; i++) d[i] = vh::D(t[4 + i]);
			GaussianShell A = mk(sA, d), B = mk(sB, d + 3); ECP U = mkU(u, d + 6);
			ECPIntegral eng(maxL, U.getL(), 0);
			TwoIndex<double> I0; eng.compute_shell_pair(U, A, B, I0);
			std::cout << "< I"; mat(std::cout, I0); std::cout << "\n< end\n";
			continue;
		}
		if (t[0] == "shiftcheck") {
			// the shifted blocks of an engine built for derivatives must be the blocks a plain engine computes for
			// genuinely higher/lower shells: `compute_shell_pair(U, A, B, sa, sb)` on ECPIntegral(maxL, LU, order)
			// versus `compute_shell_pair(U, A', B')` with l' = l + shift on ECPIntegral(maxL + order, LU, 0)
			int order = vh::I(t[4]);
			double z[3] = {0, 0, 0};
			GaussianShell A = mk(sA, z), B = mk(sB, z); ECP U = mkU(u, z);
			ECPIntegral engD(maxL, U.getL(), order), eng0(maxL + order, U.getL(), 0);
			double worst = 0, scale = 0; int nblk = 0; std::string where = "-";
			for (int sa = -order; sa <= order; sa++) for (int sb = -order; sb <= order; sb++) {
				if (std::abs(sa) + std::abs(sb) > order || A.am() + sa < 0 || B.am() + sb < 0) continue;
				GaussianShell A2(std::array<double,3>{A.center()[0], A.center()[1], A.center()[2]}, A.am() + sa), B2(std::array<double,3>{B.center()[0], B.center()[1], B.center()[2]}, B.am() + sb);
				for (int i = 0; i < A.nprimitive(); i++) A2.addPrim(A.exp(i), A.coef(i));
				for (int i = 0; i < B.nprimitive(); i++) B2.addPrim(B.exp(i), B.coef(i));
				TwoIndex<double> X, Y;
				engD.compute_shell_pair(U, A, B, X, sa, sb);
				eng0.compute_shell_pair(U, A2, B2, Y);
				nblk++;
				if (X.data.size() != Y.data.size()) { worst = 1e300; where = "dims"; continue; }
				for (size_t i = 0; i < X.data.size(); i++) { scale = std::max(scale, std::fabs(Y.data[i])); double d = std::fabs(X.data[i] - Y.data[i]); if (d > worst || d != d) { worst = d != d ? 1e300 : d; where = std::to_string(sa) + "," + std::to_string(sb); } }
			}
			{
				// a shell object that has been used in a derivative call and is then edited in place (public contraction coefficients) must
				// behave like a freshly built shell with the edited contraction: nothing derived from the old contraction may survive in it
				std::array<TwoIndex<double>, 9> R0, R1, R2;
				engD.compute_shell_pair_derivative(U, A, B, R0);
				for (size_t i = 0; i < A.coeffs.size(); i++) A.coeffs[i] *= (i % 2 ? 3.0 : 0.25);
				for (size_t i = 0; i < B.coeffs.size(); i++) B.coeffs[i] *= (i % 2 ? 0.5 : 1.75);
				engD.compute_shell_pair_derivative(U, A, B, R1);
				GaussianShell A3(std::array<double,3>{A.center()[0], A.center()[1], A.center()[2]}, A.am()), B3(std::array<double,3>{B.center()[0], B.center()[1], B.center()[2]}, B.am());
				for (int i = 0; i < A.nprimitive(); i++) A3.addPrim(A.exp(i), A.coef(i));
				for (int i = 0; i < B.nprimitive(); i++) B3.addPrim(B.exp(i), B.coef(i));
				engD.compute_shell_pair_derivative(U, A3, B3, R2);
				nblk += 9;
				for (int k = 0; k < 9; k++) for (size_t i = 0; i < R1[k].data.size() && i < R2[k].data.size(); i++) {
					scale = std::max(scale, std::fabs(R2[k].data[i])); double d = std::fabs(R1[k].data[i] - R2[k].data[i]);
					if (d > worst || d != d) { worst = d != d ? 1e300 : d; where = "edited-in-place"; }
				}
			}
			std::cout << "< S " << nblk << " " << bits(worst) << " " << bits(scale) << " " << where << "\n< end\n";
			continue;
		}
		int order = vh::I(t[4]);
		double z[3] = {0, 0, 0};
		GaussianShell A = mk(sA, z), B = mk(sB, z); ECP U = mkU(u, z);
		ECPIntegral eng(maxL, U.getL(), order);
		Ctx c{&eng, &U};
		std::ostream &o = std::cout;
		double dAC = 0, dBC = 0; for (int i = 0; i < 3; i++) { dAC += std::fabs(A.center()[i] - U.center()[i]); dBC += std::fabs(B.center()[i] - U.center()[i]); }
		bool aOff = dAC > 1e-6, bOff = dBC > 1e-6;
		o << "> begin deriv\n> p " << A.am() << " " << B.am() << " " << aOff << " " << bOff << "\n";
		if (order >= 1) { first_blocks(o, c, "Am", "Ap", A, B); first_blocks(o, c, "Bm", "Bp", B, A); }
		if (order >= 2) { second_blocks(o, c, "AAm", "AA0", "AAp", A, B); second_blocks(o, c, "BBm", "BB0", "BBp", B, A); mixed_blocks(o, c, A, B); }
		o << "> end\n";
		if (order >= 1) {
			std::array<TwoIndex<double>, 3> QA, QB; std::array<TwoIndex<double>, 9> R;
			eng.left_shell_derivative(U, A, B, QA); eng.left_shell_derivative(U, B, A, QB);
			eng.compute_shell_pair_derivative(U, A, B, R);
			for (int i = 0; i < 3; i++) { o << "< QA " << i; mat(o, QA[i]); o << "\n"; }
			for (int i = 0; i < 3; i++) { o << "< QB " << i; mat(o, QB[i]); o << "\n"; }
			for (int i = 0; i < 9; i++) { o << "< R1 " << i; mat(o, R[i]); o << "\n"; }
		}
		if (order >= 2) {
			std::array<TwoIndex<double>, 6> QAA, QBB; std::array<TwoIndex<double>, 9> QAB; std::array<TwoIndex<double>, 45> R;
			eng.left_shell_second_derivative(U, A, B, QAA); eng.left_shell_second_derivative(U, B, A, QBB); eng.mixed_second_derivative(U, A, B, QAB);
			eng.compute_shell_pair_second_derivative(U, A, B, R);
			for (int i = 0; i < 6; i++) { o << "< QAA " << i; mat(o, QAA[i]); o << "\n"; }
			for (int i = 0; i < 6; i++) { o << "< QBB " << i; mat(o, QBB[i]); o << "\n"; }
			for (int i = 0; i < 9; i++) { o << "< QAB " << i; mat(o, QAB[i]); o << "\n"; }
			for (int i = 0; i < 45; i++) { o << "< R2 " << i; mat(o, R[i]); o << "\n"; }
		}
		o << "< end\n";
	}
	return 0;
}
