// C16 correspondence driver: loads shipped ECP definitions with the real ECPBasis::addECP_from_file.
//   `load <xml-path> <q> <r>*`  (q = atomic number; r = radii, decimal)
//   out: `E <ncore> <N> <L> <lstart,...> <min_exp-bits> <min_exp_l-bits,...>` ; `G <l> <n> <a-bits> <d-bits>` per stored
//        primitive in stored order ; `V <l> <r-bits> <value-bits>` ; `end`
#include "common.hpp"
using namespace libecpint;
static std::string bits(double v) { unsigned long long u; memcpy(&u, &v, 8); char b[32]; snprintf(b, sizeof b, "%016llx", u); return b; }
int main() {
	std::string line;
	// every definition is also loaded into ONE basis that lives across all requests (the same element from several sets, one after the
	// other, as a calculation with mixed ECP sets does): what that basis receives must be what a fresh basis receives
	ECPBasis all;
	while (std::getline(std::cin, line)) {
		auto t = vh::split(line);
		if (t.empty() || t[0] != "load") continue;
		int q = vh::I(t[2]);
		try {
			ECPBasis b;
			std::array<double, 3> c = {0.1, 0.2, 0.3};
			b.addECP_from_file(q, c, t[1]);
			const ECP &U = b.getECP(0);
			std::cout << "E " << b.getECPCore(q) << " " << U.getN() << " " << U.getL() << " ";
			for (int i = 0; i < LIBECPINT_MAX_L + 2; i++) std::cout << (i ? "," : "") << U.l_starts[i];
			std::cout << " " << bits(U.min_exp) << " ";
			for (int i = 0; i < LIBECPINT_MAX_L + 1; i++) std::cout << (i ? "," : "") << bits(U.min_exp_l[i]);
			std::cout << " centre=" << (U.center_[0] == 0.1 && U.center_[1] == 0.2 && U.center_[2] == 0.3) << " nbasis=" << b.getN() << " maxL=" << b.getMaxL() << "\n";
			for (auto &g : U.gaussians) std::cout << "G " << g.l << " " << g.n << " " << bits(g.a) << " " << bits(g.d) << "\n";
			for (int l = 0; l <= U.getL(); l++) for (size_t k = 3; k < t.size(); k++) { double r = vh::D(t[k]); std::cout << "V " << l << " " << bits(r) << " " << bits(U.evaluate(r, l)) << "\n"; }
			int before = all.getN();
			all.addECP_from_file(q, c, t[1]);
			bool same = all.getN() == before + 1;
			if (same) {
				const ECP &W = all.getECP(all.getN() - 1);
				same = W.getN() == U.getN() && W.getL() == U.getL() && W.min_exp == U.min_exp;   // (getECPCore keeps ONE count per atomic number by design: not compared)
				for (int i = 0; same && i < U.getN(); i++) { const auto &g = U.gaussians[i], &h = W.gaussians[i]; same = g.l == h.l && g.n == h.n && g.a == h.a && g.d == h.d; }
				for (int i = 0; same && i < LIBECPINT_MAX_L + 2; i++) same = W.l_starts[i] == U.l_starts[i];
			}
			if (!same) std::cout << "EXC the same definition loaded into a basis that already holds " << before << " ECPs differs from a fresh load\n";
		} catch (std::exception &e) { std::cout << "EXC " << e.what() << "\n"; }
		std::cout << "end\n";
	}
	return 0;
}
