// C11 driver (sanitizer build with per-dimension index checks): runs the shell-pair routines of every derivative order
// on the requested class / geometry and reports whether every returned number is finite.
//   `case <id> <maxLB> <maxLU> <deriv> | ecp <cx> <cy> <cz> <nprim> (<n> <l> <a> <d>)* | shell <l> <cx> <cy> <cz> <nprim> (<e> <c>)* | shell …`
//   -> `start <id>` (flushed before the call), then `done <id> <nvalues> <nonfinite>`
#include "common.hpp"
#include "libecpint/mathutil.hpp"
using namespace libecpint;

int main() {
	std::map<std::string, ECPIntegral*> engines;
	std::string line;
	while (std::getline(std::cin, line)) {
		auto t = vh::split(line);
		if (t.empty() || t[0] != "case") continue;
		size_t k = 1;
		std::string id = t[k++];
		int maxLB = vh::I(t[k++]), maxLU = vh::I(t[k++]), deriv = vh::I(t[k++]);
		k++; k++; // | ecp
		double c[3] = {vh::D(t[k]), vh::D(t[k+1]), vh::D(t[k+2])}; k += 3;
		ECP U(c); int np = vh::I(t[k++]);
		for (int i = 0; i < np; i++) { U.addPrimitive(vh::I(t[k]), vh::I(t[k+1]), vh::D(t[k+2]), vh::D(t[k+3]), false); k += 4; }
		U.sort();
		std::vector<GaussianShell> sh;
		for (int s = 0; s < 2; s++) {
			k++; k++; // | shell
			int l = vh::I(t[k++]); std::array<double, 3> cc = {vh::D(t[k]), vh::D(t[k+1]), vh::D(t[k+2])}; k += 3;
			GaussianShell g(cc, l); int n = vh::I(t[k++]);
			for (int i = 0; i < n; i++) { g.addPrim(vh::D(t[k]), vh::D(t[k+1])); k += 2; }
			sh.push_back(g);
		}
		std::cout << "start " << id << std::endl;
		std::string key = std::to_string(maxLB) + "," + std::to_string(maxLU) + "," + std::to_string(deriv);
		if (!engines.count(key)) engines[key] = new ECPIntegral(maxLB, maxLU, deriv);
		ECPIntegral &eng = *engines[key];
		size_t n = 0, bad = 0;
		auto scan = [&](const TwoIndex<double> &m) { for (double v : m.data) { n++; if (!std::isfinite(v)) bad++; } };
		TwoIndex<double> V;
		eng.compute_shell_pair(U, sh[0], sh[1], V);
		scan(V);
		if (deriv >= 1) { std::array<TwoIndex<double>, 9> D; eng.compute_shell_pair_derivative(U, sh[0], sh[1], D); for (auto &m : D) scan(m); }
		if (deriv >= 2) { std::array<TwoIndex<double>, 45> H; eng.compute_shell_pair_second_derivative(U, sh[0], sh[1], H); for (auto &m : H) scan(m); }
		std::cout << "done " << id << " " << n << " " << bad << std::endl;
	}
	return 0;
}
