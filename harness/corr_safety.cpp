// C11 driver (sanitizer build with per-dimension index checks): runs the shell-pair routines of every derivative order
// on the requested class / geometry and reports whether every returned number is finite.
//   `case <id> <maxLB> <maxLU> <deriv> | ecp <cx> <cy> <cz> <nprim> (<n> <l> <a> <d>)* | shell <l> <cx> <cy> <cz> <nprim> (<e> <c>)* | shell …`
//   -> `start <id>` (flushed before the call), then `done <id> <nvalues> <nonfinite>`
#include "common.hpp"
#include "libecpint/mathutil.hpp"
using namespace libecpint;

int main() {
	std::map<std::string, ECPIntegral*> engines;
	// the result containers live across requests and each request also runs the pair in the opposite order into the SAME containers:
	// a caller's matrix that held an (LA,LB) block receives the (LB,LA) block next - same element count, other shape
	TwoIndex<double> V;
	std::array<TwoIndex<double>, 9> D;
	std::array<TwoIndex<double>, 45> H;
	std::string line;
	while (std::getline(std::cin, line)) {
		auto t = vh::split(line);
		if (t.empty() || t[0] != "case") continue;
		size_t k = 1;
		std::string id = t[k++];
		int maxLB = vh::I(t[k++]), maxLU = vh::I(t[k++]), deriv = vh::I(t[k++]);
		k++; k++; // | ecp
		double c[3] = {vh::D(t[k]), vh::D(t[k+1]), vh::D(t[k+2])}; k += 3;
		ECP U(c); int np = vh::I(t[k++]);
		for (int i = 0; i < np; i++) { U.addPrimitive(vh::I(t[k]), vh::I(t[k+1]), vh::D(t[k+2]), vh::D(t[k+3]), false); k += 4; }
		U.sort();
		std::vector<GaussianShell> sh;
		for (int s = 0; s < 2; s++) {
			k++; k++; // | shell
			int l = vh::I(t[k++]); std::array<double, 3> cc = {vh::D(t[k]), vh::D(t[k+1]), vh::D(t[k+2])}; k += 3;
			GaussianShell g(cc, l); int n = vh::I(t[k++]);
			for (int i = 0; i < n; i++) { g.addPrim(vh::D(t[k]), vh::D(t[k+1])); k += 2; }
			sh.push_back(g);
		}
		std::cout << "start " << id << std::endl;
		std::string key = std::to_string(maxLB) + "," + std::to_string(maxLU) + "," + std::to_string(deriv);
		if (!engines.count(key)) engines[key] = new ECPIntegral(maxLB, maxLU, deriv);
		ECPIntegral &eng = *engines[key];
		size_t n = 0, bad = 0;
		auto scan = [&](const TwoIndex<double> &m) { for (double v : m.data) { n++; if (!std::isfinite(v)) bad++; } };
		auto shape = [&](const TwoIndex<double> &m, int a, int b) {
			int na = (a + 1) * (a + 2) / 2, nb = (b + 1) * (b + 2) / 2;
			if (m.dims[0] != na || m.dims[1] != nb || (int) m.data.size() != na * nb) { std::cerr << "VERIF-BOUNDS result matrix has shape " << m.dims[0] << "x" << m.dims[1] << " (" << m.data.size() << " values) for a " << na << "x" << nb << " block\n"; std::abort(); }
		};
		for (int order = 0; order < 2; order++) {
			const GaussianShell &s0 = sh[order], &s1 = sh[1 - order];
			eng.compute_shell_pair(U, s0, s1, V);
			scan(V); shape(V, s0.am(), s1.am());
			if (deriv >= 1) { eng.compute_shell_pair_derivative(U, s0, s1, D); for (auto &m : D) { scan(m); shape(m, s0.am(), s1.am()); } }
			if (deriv >= 2 && order == 0) { eng.compute_shell_pair_second_derivative(U, s0, s1, H); for (auto &m : H) { scan(m); shape(m, s0.am(), s1.am()); } }
		}
		std::cout << "done " << id << " " << n << " " << bad << std::endl;
	}
	return 0;
}
