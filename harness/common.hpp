// Shared helpers for the correspondence drivers: system description, hex doubles, line I/O.
#pragma once
#include <cstdio>
#include <cstdlib>
#include <cstring>
#include <string>
#include <vector>
#include <array>
#include <map>
#include <sstream>
#include <iostream>
#include <cmath>
#include "libecpint.hpp"
#include "libecpint/api.hpp"

namespace vh {

inline std::vector<std::string> split(const std::string &s) {
	std::vector<std::string> out; std::istringstream is(s); std::string t;
	while (is >> t) out.push_back(t);
	return out;
}
inline double D(const std::string &s) { return strtod(s.c_str(), nullptr); }
inline int I(const std::string &s) { return atoi(s.c_str()); }
inline std::string hx(double v) { char b[64]; snprintf(b, sizeof b, "%a", v); return b; }

struct ShellDef { int atom, l; std::vector<double> e, c; };
struct EcpPrim { int n, l; double a, d; };
struct EcpDef { int atom; std::vector<EcpPrim> prims; };

struct System {
	int natoms = 0;
	std::map<int, std::vector<double>> geoms; // k -> 3*natoms coords
	std::vector<ShellDef> shells;
	std::vector<EcpDef> ecps;

	bool parse_line(const std::vector<std::string> &t) {
		if (t.empty()) return true;
		if (t[0] == "atoms") { natoms = I(t[1]); return true; }
		if (t[0] == "geom") {
			std::vector<double> g; for (size_t i = 2; i < t.size(); i++) g.push_back(D(t[i]));
			geoms[I(t[1])] = g; return true;
		}
		if (t[0] == "shell") {
			ShellDef s; s.atom = I(t[1]); s.l = I(t[2]); int np = I(t[3]);
			for (int i = 0; i < np; i++) { s.e.push_back(D(t[4+2*i])); s.c.push_back(D(t[5+2*i])); }
			shells.push_back(s); return true;
		}
		if (t[0] == "ecp") {
			EcpDef u; u.atom = I(t[1]); int np = I(t[2]);
			for (int i = 0; i < np; i++) u.prims.push_back({I(t[3+4*i]), I(t[4+4*i]), D(t[5+4*i]), D(t[6+4*i])});
			ecps.push_back(u); return true;
		}
		if (t[0] == "reset") { *this = System(); return true; }
		return false;
	}

	std::vector<double> shell_coords(int g) const {
		std::vector<double> c; const auto &G = geoms.at(g);
		for (auto &s : shells) for (int q = 0; q < 3; q++) c.push_back(G[3*s.atom+q]);
		return c;
	}
	std::vector<double> ecp_coords(int g) const {
		std::vector<double> c; const auto &G = geoms.at(g);
		for (auto &u : ecps) for (int q = 0; q < 3; q++) c.push_back(G[3*u.atom+q]);
		return c;
	}

	// the shells / ECPs of the system at geometry g built DIRECTLY from the definitions (GaussianShell / ECP constructors, addPrim,
	// addPrimitive, sort) - independent of what ECPIntegrator::set_gaussian_basis / set_ecp_basis parse out of the flat arrays
	std::vector<libecpint::GaussianShell> ref_shells(int g) const {
		std::vector<libecpint::GaussianShell> out; const auto &G = geoms.at(g);
		for (auto &s : shells) {
			std::array<double, 3> c = {G[3*s.atom], G[3*s.atom+1], G[3*s.atom+2]};
			libecpint::GaussianShell sh(c, s.l);
			for (size_t i = 0; i < s.e.size(); i++) sh.addPrim(s.e[i], s.c[i]);
			out.push_back(sh);
		}
		return out;
	}
	std::vector<libecpint::ECP> ref_ecps(int g) const {
		std::vector<libecpint::ECP> out; const auto &G = geoms.at(g);
		for (auto &u : ecps) {
			double c[3] = {G[3*u.atom], G[3*u.atom+1], G[3*u.atom+2]};
			libecpint::ECP U(c);
			for (auto &p : u.prims) U.addPrimitive(p.n, p.l, p.a, p.d);
			U.sort();
			out.push_back(U);
		}
		return out;
	}

	// a freshly constructed integrator with shells at geometry gs and ECPs at geometry ge
	void make(libecpint::ECPIntegrator &f, int gs, int ge, int deriv) const {
		std::vector<double> sc = shell_coords(gs), ec = ecp_coords(ge), ex, co, ea, ed;
		std::vector<int> ams, lens, el, en, elens;
		for (auto &s : shells) { ams.push_back(s.l); lens.push_back(s.e.size());
			for (size_t i = 0; i < s.e.size(); i++) { ex.push_back(s.e[i]); co.push_back(s.c[i]); } }
		for (auto &u : ecps) { elens.push_back(u.prims.size());
			for (auto &p : u.prims) { en.push_back(p.n); el.push_back(p.l); ea.push_back(p.a); ed.push_back(p.d); } }
		f.set_gaussian_basis(shells.size(), sc.data(), ex.data(), co.data(), ams.data(), lens.data());
		f.set_ecp_basis(ecps.size(), ec.data(), ea.data(), ed.data(), el.data(), en.data(), elens.data());
		f.init(deriv);
	}
};

// fixed pseudo-random projection vector (splitmix64), identical in every run
inline double projw(size_t i) {
	unsigned long long z = (i + 1) * 0x9E3779B97F4A7C15ull;
	z = (z ^ (z >> 30)) * 0xBF58476D1CE4E5B9ull; z = (z ^ (z >> 27)) * 0x94D049BB133111EBull; z ^= z >> 31;
	return 0.5 + (double)(z >> 11) / 9007199254740992.0; // in [0.5, 1.5)
}
inline double project(const std::vector<double> &v) {
	double s = 0; for (size_t i = 0; i < v.size(); i++) s += projw(i) * v[i]; return s;
}
inline double maxabs(const std::vector<double> &v) {
	double s = 0; for (double x : v) s = std::max(s, std::fabs(x)); return s;
}

} // namespace vh
