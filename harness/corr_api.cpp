// C04 correspondence / search driver.
//   system lines (common.hpp), then
//   `assemble <geom> <deriv>` : lines starting `> ` are the request for the Lean driver (layer api): the
//        centres the integrator holds, the kept (shell, ECP) pairs of the distance screen, and every
//        low-level block computed by the real engine; lines starting `< ` are the integrator's own
//        results in the driver's output format.
//   `results <geom> <deriv>`  : only the `< ` lines (used by the finite-difference oracle)
#include "common.hpp"
#include "libecpint/mathutil.hpp"
using namespace libecpint;

static std::string bits(double v) { unsigned long long u; memcpy(&u, &v, 8); char b[32]; snprintf(b, sizeof b, "%016llx", u); return b; }
static void mat(std::ostream &o, const TwoIndex<double> &m) { o << " " << m.dims[0] << " " << m.dims[1]; for (double v : m.data) o << " " << bits(v); }
static void vec(std::ostream &o, const std::vector<double> &v) { for (double x : v) o << " " << bits(x); }

static void results(ECPIntegrator &f, int deriv) {
	std::cout << "< ids";
	for (auto &s : f.shells) std::cout << " " << s.atom_id;
	std::cout << " |";
	for (int u = 0; u < f.ecps.getN(); u++) std::cout << " " << f.ecps.getECP(u).atom_id;
	std::cout << " | " << f.natoms << "\n";
	f.compute_integrals();
	std::cout << "< I " << f.ncart; vec(std::cout, *f.get_integrals()); std::cout << "\n";
	if (deriv >= 1) { f.compute_first_derivs(); auto d = f.get_first_derivs(); for (size_t k = 0; k < d.size(); k++) { std::cout << "< D " << k; vec(std::cout, *d[k]); std::cout << "\n"; } }
	if (deriv >= 2) { f.compute_second_derivs(); auto d = f.get_second_derivs(); for (size_t k = 0; k < d.size(); k++) { std::cout << "< H " << k; vec(std::cout, *d[k]); std::cout << "\n"; } }
	std::cout << "< end\n";
}

int main() {
	vh::System sys;
	std::string line;
	while (std::getline(std::cin, line)) {
		auto t = vh::split(line);
		if (t.empty() || t[0][0] == '#') continue;
#ifdef LIBECPINT_VERIF
		if (t.size() == 2 && t[0] == "noscreen") { libecpint::verif::no_screening = vh::I(t[1]) != 0; continue; }
#endif
		if (sys.parse_line(t)) continue;
		if (t[0] == "results") { ECPIntegrator f; sys.make(f, vh::I(t[1]), vh::I(t[1]), vh::I(t[2])); results(f, vh::I(t[2])); continue; }
		if (t[0] == "assemble" || t[0] == "assemble_moved") {
			// `assemble_moved <g0> <g1> <deriv>`: the integrator is built and used at geometry g0 first, then moved to g1 with the
			// coordinate-update calls; what it returns there must be what a fresh integrator returns (screening decisions included)
			bool moved = t[0] == "assemble_moved";
			int g = vh::I(t[1]), deriv = vh::I(t[moved ? 3 : 2]);
			ECPIntegrator f; sys.make(f, g, g, deriv);
			if (moved) {
				int g1 = vh::I(t[2]);
				f.compute_integrals();
				if (deriv >= 1) f.compute_first_derivs();
				auto sc = sys.shell_coords(g1), ec = sys.ecp_coords(g1);
				f.update_gaussian_basis_coords(sys.shells.size(), sc.data());
				f.update_ecp_basis_coords(sys.ecps.size(), ec.data());
			}
			std::ostream &o = std::cout;
			o << "> begin api\n";
			// reference objects built directly from the system's definitions at the geometry the integrator is at now: the blocks the
			// model assembles come from THESE, so a slip in the integrator's own parsing of the flat arrays (set_gaussian_basis,
			// set_ecp_basis, the coordinate updates) shows as a difference, instead of being shared by both sides
			int gnow = moved ? vh::I(t[2]) : g;
			std::vector<GaussianShell> RS = sys.ref_shells(gnow);
			std::vector<ECP> RU = sys.ref_ecps(gnow);
			for (auto &s : RS) o << "> shell " << bits(s.center()[0]) << " " << bits(s.center()[1]) << " " << bits(s.center()[2]) << " " << s.ncartesian() << "\n";
			for (auto &U : RU) o << "> ecp " << bits(U.center_[0]) << " " << bits(U.center_[1]) << " " << bits(U.center_[2]) << "\n";
			// the shell/ECP distance screen of compute_integrals, restated from its documentation
			// (threshold built from maxLB and the smallest exponent, compared with shell_bound)
			{
				int maxLB = 0; double min_alpha = 100.0;
				for (auto &s : RS) { if (s.am() > maxLB) maxLB = s.am(); if (s.min_exp < min_alpha) min_alpha = s.min_exp; }
				double thresh = FAST_POW[maxLB+3]((maxLB+3.0)/min_alpha)*FAST_POW[3](M_PI/(2*maxLB+3.0));
				thresh /= FAST_POW[maxLB](2.0*M_EULER);
				thresh = TWO_C_TOLERANCE / std::sqrt(thresh);
				for (size_t s = 0; s < RS.size(); s++) for (size_t u = 0; u < RU.size(); u++) {
					auto &A = RS[s]; auto &U = RU[u];
					double ax = A.center()[0]-U.center_[0], ay = A.center()[1]-U.center_[1], az = A.center()[2]-U.center_[2];
					double sb = shell_bound(A.l, A.min_exp, ax*ax+ay*ay+az*az, U.min_exp);
					if (sb > thresh) o << "> kept " << s << " " << u << "\n";
				}
			}
			TwoIndex<double> I0; std::array<TwoIndex<double>, 9> D; std::array<TwoIndex<double>, 45> H;
			for (size_t s1 = 0; s1 < RS.size(); s1++) for (size_t s2 = 0; s2 <= s1; s2++) for (size_t u = 0; u < RU.size(); u++) {
				auto &A = RS[s1]; auto &B = RS[s2]; auto &U = RU[u];
				f.ecpint->compute_shell_pair(U, A, B, I0);
				o << "> i " << s1 << " " << s2 << " " << u; mat(o, I0); o << "\n";
				if (deriv >= 1) { f.ecpint->compute_shell_pair_derivative(U, A, B, D); for (int i = 0; i < 9; i++) { o << "> d " << s1 << " " << s2 << " " << u << " " << i; mat(o, D[i]); o << "\n"; } }
				if (deriv >= 2) { f.ecpint->compute_shell_pair_second_derivative(U, A, B, H); for (int i = 0; i < 45; i++) { o << "> h " << s1 << " " << s2 << " " << u << " " << i; mat(o, H[i]); o << "\n"; } }
			}
			o << "> want " << deriv << "\n> end\n";
			results(f, deriv);
			continue;
		}
		std::cout << "bad-line " << line << "\n";
	}
	return 0;
}
