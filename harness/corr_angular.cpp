// C13 correspondence driver: the real AngularIntegral tables and realSphericalHarmonics.
//   `angular <LB> <LE> W <k> <l> <m> <lam> <idx> … O <k> <l> <m> <a> <ia> <b> <ib> …` → `W <bits>*`, `O <bits>*`
//        (idx = lam + mu, ia = a + sigma_a … : raw storage indices, read with -fno-access-control)
//   `rsh <lmax> <x-bits> <phi-bits>` → `S <l> <bits>*`
#include "common.hpp"
#include "libecpint/angular.hpp"
#include "libecpint/mathutil.hpp"
using namespace libecpint;
static std::string bits(double v) { unsigned long long u; memcpy(&u, &v, 8); char b[32]; snprintf(b, sizeof b, "%016llx", u); return b; }
static double unbits(const std::string &s) { unsigned long long u = strtoull(s.c_str(), nullptr, 16); double d; memcpy(&d, &u, 8); return d; }
int main() {
	initFactorials();
	std::string line;
	while (std::getline(std::cin, line)) {
		auto t = vh::split(line);
		if (t.empty()) continue;
		if (t[0] == "rsh") {
			int lmax = vh::I(t[1]);
			TwoIndex<double> S = realSphericalHarmonics(lmax, unbits(t[2]), unbits(t[3]));
			for (int l = 0; l <= lmax; l++) { std::cout << "S " << l; for (int j = 0; j < 2 * lmax + 1; j++) std::cout << " " << bits(S(l, j)); std::cout << "\n"; }
			continue;
		}
		if (t[0] != "angular") continue;
		AngularIntegral ang(vh::I(t[1]), vh::I(t[2])); ang.compute();
		std::string w = "W", o = "O"; char mode = 'W';
		for (size_t k = 3; k < t.size();) {
			if (t[k] == "W" || t[k] == "O") { mode = t[k][0]; k++; continue; }
			if (mode == 'W') { w += " " + bits(ang.W(vh::I(t[k]), vh::I(t[k+1]), vh::I(t[k+2]), vh::I(t[k+3]), vh::I(t[k+4]))); k += 5; }
			else { o += " " + bits(ang.omega(vh::I(t[k]), vh::I(t[k+1]), vh::I(t[k+2]), vh::I(t[k+3]), vh::I(t[k+4]), vh::I(t[k+5]), vh::I(t[k+6]))); k += 7; }
		}
		std::cout << w << "\n" << o << "\n";
	}
	return 0;
}
