// C10 driver (built against the ThreadSanitizer variant of the library).
//   argv: <threads> <rounds> <seed>
// Phase 1 (serial): a shared engine is constructed and every work item is computed once -> reference bits.
// Phase 2 (concurrent): T threads; each repeatedly (a) calls the three const compute routines of the SHARED
//   engine on its own work items and (b) constructs a PRIVATE engine and uses it - while the others do the same.
// Every result is compared bit for bit with the serial reference.  Data races are ThreadSanitizer's verdict.
#include "common.hpp"
#include <thread>
#include <atomic>
#include <random>
using namespace libecpint;

struct Item { GaussianShell A, B; ECP U; Item(const std::array<double,3>&a, int la, const std::array<double,3>&b, int lb, const double* c) : A(a, la), B(b, lb), U(c) {} };

static std::vector<double> flat(const TwoIndex<double> &m) { return m.data; }
static std::vector<double> run_item(const ECPIntegral &eng, const Item &it, int what) {
	std::vector<double> out;
	if (what == 0) { TwoIndex<double> r; eng.compute_shell_pair(it.U, it.A, it.B, r); out = r.data; }
	else if (what == 1) { std::array<TwoIndex<double>, 9> r; eng.compute_shell_pair_derivative(it.U, it.A, it.B, r); for (auto &m : r) out.insert(out.end(), m.data.begin(), m.data.end()); }
	else { std::array<TwoIndex<double>, 45> r; eng.compute_shell_pair_second_derivative(it.U, it.A, it.B, r); for (auto &m : r) out.insert(out.end(), m.data.begin(), m.data.end()); }
	return out;
}

int main(int argc, char **argv) {
	int T = argc > 1 ? atoi(argv[1]) : 4, rounds = argc > 2 ? atoi(argv[2]) : 3; unsigned seed = argc > 3 ? atoi(argv[3]) : 1;
	std::mt19937 rng(seed);
	std::uniform_real_distribution<double> pos(-1.5, 1.5), ex(0.4, 3.0), co(-1.0, 1.0);
	std::vector<Item> items;
	for (int i = 0; i < 3 * T; i++) {
		std::array<double,3> a = {pos(rng), pos(rng), pos(rng)}, b = {pos(rng), pos(rng), pos(rng)};
		double c[3] = {pos(rng) * 0.3, pos(rng) * 0.3, pos(rng) * 0.3};
		if (i % 5 == 3) a = {c[0], c[1], c[2]};
		items.emplace_back(a, i % 3, b, (i / 3) % 3, c);
		Item &it = items.back();
		it.A.addPrim(ex(rng), 0.5 + std::fabs(co(rng))); it.A.addPrim(ex(rng), co(rng));
		it.B.addPrim(ex(rng), 0.5 + std::fabs(co(rng)));
		it.U.addPrimitive(2, 0, ex(rng), 2.0 + co(rng)); it.U.addPrimitive(2, 1, ex(rng), co(rng) * 3); it.U.addPrimitive(2, 2, ex(rng), -1.0 + co(rng)); it.U.sort();
	}
	ECPIntegral shared(2, 2, 2);
	std::vector<std::vector<std::vector<double>>> ref(items.size(), std::vector<std::vector<double>>(3));
	for (size_t i = 0; i < items.size(); i++) for (int w = 0; w < 3; w++) ref[i][w] = run_item(shared, items[i], w);
	std::atomic<long> mismatches(0), calls(0);
	std::atomic<int> go(0);
	auto same = [](const std::vector<double> &x, const std::vector<double> &y) { return x.size() == y.size() && memcmp(x.data(), y.data(), x.size() * sizeof(double)) == 0; };
	std::vector<std::thread> th;
	for (int t = 0; t < T; t++) th.emplace_back([&, t]() {
		go.fetch_add(1); while (go.load() < T) std::this_thread::yield();
		for (int r = 0; r < rounds; r++) {
			for (int k = 0; k < 3; k++) {
				size_t i = (3 * t + k + r) % items.size();
				for (int w = 0; w < 3; w++) { if (!same(run_item(shared, items[i], w), ref[i][w])) mismatches++; calls++; }
			}
			ECPIntegral mine(2, 2, 2);   // construction while others compute
			size_t i = (t + r) % items.size();
			for (int w = 0; w < 3; w++) { if (!same(run_item(mine, items[i], w), ref[i][w])) mismatches++; calls++; }
		}
	});
	for (auto &x : th) x.join();
	printf("threads=%d rounds=%d calls=%ld mismatches=%ld\n", T, rounds, calls.load(), mismatches.load());
	return mismatches.load() ? 3 : 0;
}
