// C01/C06/C07/C08 correspondence / search driver: the real ECPIntegral::compute_shell_pair.
//   `pair <maxLB> <maxLU> <deriv> <shiftA> <shiftB> | ecp <cx> <cy> <cz> <nprim> (<n> <l> <a> <d>)* | shell <l> <cx> <cy> <cz> <nprim> (<e> <c>)* | shell …`
//   (decimal numbers; ECP powers n in the user convention, i.e. 2 = pure Gaussian)
//   `> ` lines: the request for the Lean driver (layer pair), including every (argument, value) pair of the external
//               functions Dawson and erf the real computation called (logged through linker wrappers);
//   `< V <nA> <nB> <bits>*`: the block the library returns.
//   `< S <bits>*`: the per-l screening estimates of the real ECPIntegral::estimate_type2 for this pair (the request carries a `screens`
//               line, so the model's estimates are compared bit for bit as well: an estimate that changes without crossing the
//               threshold on the sampled pairs would otherwise be invisible in the blocks)
#include "common.hpp"
#include <sstream>
#include "libecpint/mathutil.hpp"
using namespace libecpint;
static std::string bits(double v) { unsigned long long u; memcpy(&u, &v, 8); char b[32]; snprintf(b, sizeof b, "%016llx", u); return b; }

static std::map<unsigned long long, double> logD, logE;
static bool logging = false;
extern "C" double __real_erf(double);
extern "C" double __wrap_erf(double x) { double v = __real_erf(x); if (logging) { unsigned long long u; memcpy(&u, &x, 8); logE[u] = v; } return v; }
extern "C" double __real__ZN8Faddeeva6DawsonEd(double);
extern "C" double __wrap__ZN8Faddeeva6DawsonEd(double x) { double v = __real__ZN8Faddeeva6DawsonEd(x); if (logging) { unsigned long long u; memcpy(&u, &x, 8); logD[u] = v; } return v; }

int main() {
	std::map<std::string, ECPIntegral*> engines;
	std::string line;
	while (std::getline(std::cin, line)) {
		auto t = vh::split(line);
#ifdef LIBECPINT_VERIF
		// `noscreen 0|1`: the hook switch of /repo (every screening decision bypassed)
		if (t.size() == 2 && t[0] == "noscreen") { libecpint::verif::no_screening = vh::I(t[1]) != 0; continue; }
#endif
		if (t.empty() || t[0] != "pair") continue;
		size_t k = 1;
		int maxLB = vh::I(t[k++]), maxLU = vh::I(t[k++]), deriv = vh::I(t[k++]), sa = vh::I(t[k++]), sb = vh::I(t[k++]);
		k++; // |
		k++; // ecp
		double c[3] = {vh::D(t[k]), vh::D(t[k+1]), vh::D(t[k+2])}; k += 3;
		ECP U(c); int np = vh::I(t[k++]);
		for (int i = 0; i < np; i++) { U.addPrimitive(vh::I(t[k]), vh::I(t[k+1]), vh::D(t[k+2]), vh::D(t[k+3]), false); k += 4; }
		U.sort();
		std::vector<GaussianShell> sh;
		for (int s = 0; s < 2; s++) {
			k++; k++; // | shell
			int l = vh::I(t[k++]); std::array<double, 3> cc = {vh::D(t[k]), vh::D(t[k+1]), vh::D(t[k+2])}; k += 3;
			GaussianShell g(cc, l); int n = vh::I(t[k++]);
			for (int i = 0; i < n; i++) { g.addPrim(vh::D(t[k]), vh::D(t[k+1])); k += 2; }
			sh.push_back(g);
		}
		std::string key = std::to_string(maxLB) + "," + std::to_string(maxLU) + "," + std::to_string(deriv);
		if (!engines.count(key)) engines[key] = new ECPIntegral(maxLB, maxLU, deriv);
		ECPIntegral &eng = *engines[key];
		logD.clear(); logE.clear(); logging = true;
		TwoIndex<double> V;
		// the library reports non-convergence of its adaptive quadratures on std::cerr and carries on: count the reports
		std::stringstream errbuf; std::streambuf *olderr = std::cerr.rdbuf(errbuf.rdbuf());
		eng.compute_shell_pair(U, sh[0], sh[1], V, sa, sb);
		std::cerr.rdbuf(olderr);
		logging = false;
		size_t warn1 = 0, warn2 = 0;
		{ std::string e = errbuf.str(); for (size_t p = 0; (p = e.find("Failed to converge", p)) != std::string::npos; p++) warn1++;
		  for (size_t p = 0; (p = e.find("Failed at second attempt", p)) != std::string::npos; p++) warn2++; }
		std::ostream &o = std::cout;
		o << "> begin pair\n> engine " << maxLB << " " << maxLU << " " << deriv << "\n";
		o << "> ecp " << bits(U.center_[0]) << " " << bits(U.center_[1]) << " " << bits(U.center_[2]) << " " << U.getN();
		for (auto &g : U.gaussians) o << " " << g.n << " " << g.l << " " << bits(g.a) << " " << bits(g.d);
		o << "\n";
		for (int s = 0; s < 2; s++) {
			o << "> shell" << (s ? "B " : "A ") << sh[s].l << " " << bits(sh[s].center()[0]) << " " << bits(sh[s].center()[1]) << " " << bits(sh[s].center()[2]) << " " << sh[s].nprimitive();
			for (int i = 0; i < sh[s].nprimitive(); i++) o << " " << bits(sh[s].exp(i)) << " " << bits(sh[s].coef(i));
			o << "\n";
		}
		o << "> shift " << sa << " " << sb << "\n";
		o << "> screens\n";
		auto dump = [&](const char *tag, std::map<unsigned long long, double> &m) {
			size_t n = 0;
			for (auto &kv : m) { if (n % 400 == 0) o << (n ? "\n" : "") << "> ext " << tag; char b[32]; snprintf(b, sizeof b, "%016llx", kv.first); o << " " << b << " " << bits(kv.second); n++; }
			if (n) o << "\n";
		};
		dump("D", logD); dump("E", logE);
#ifdef LIBECPINT_VERIF
		o << (libecpint::verif::no_screening ? "> sw 1 1 0 0 0 0\n> end\n" : "> sw 1 1 1 1 1 0\n> end\n");
#else
		o << "> sw 1 1 1 1 1 0\n> end\n";
#endif
		{
			// the pair data as compute_shell_pair prepares it for estimate_type2 (fields the estimate reads)
			ShellPairData d;
			const double* C = U.center();
			for (int i = 0; i < 3; i++) { d.A[i] = sh[0].center()[i] - C[i]; d.B[i] = sh[1].center()[i] - C[i]; }
			d.LA = sh[0].am() + sa; d.LB = sh[1].am() + sb;
			d.maxLBasis = d.LA > d.LB ? d.LA : d.LB;
			d.ncartA = (d.LA+1)*(d.LA+2)/2; d.ncartB = (d.LB+1)*(d.LB+2)/2;
			d.A2 = d.A[0]*d.A[0] + d.A[1]*d.A[1] + d.A[2]*d.A[2]; d.Am = sqrt(d.A2); d.A_on_ecp = (d.Am < 1e-6);
			d.B2 = d.B[0]*d.B[0] + d.B[1]*d.B[1] + d.B[2]*d.B[2]; d.Bm = sqrt(d.B2); d.B_on_ecp = (d.Bm < 1e-6);
			double R[3] = {d.A[0] - d.B[0], d.A[1] - d.B[1], d.A[2] - d.B[2]};
			d.RAB2 = R[0]*R[0] + R[1]*R[1] + R[2]*R[2]; d.RABm = sqrt(d.RAB2);
			std::vector<double> sc(U.getL() + 1, 0.0);
			eng.estimate_type2(U, sh[0], sh[1], d, sc.data());
			o << "< S"; for (double v : sc) o << " " << bits(v); o << "\n";
		}
		o << "< W " << warn1 << " " << warn2 << "\n";
		o << "< V " << V.dims[0] << " " << V.dims[1]; for (double v : V.data) o << " " << bits(v); o << "\n< end\n";
	}
	return 0;
}
