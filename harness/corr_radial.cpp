// C12 correspondence / search driver: primitive type-2 radial integrals of the real RadialIntegral.
//   `prim <nbase> <un> <ua> <a> <A> <b> <B> <N> <l1> <l2>`   (decimal numbers; un = ECP power as stored, i.e. n-2)
//   `> ` line : the request for the Lean driver (layer radial) with the external-function values (Dawson, erf)
//   `< ` lines: `R <value>` what type2(triples, …) adds to radials(N,l1,l2) for unit coefficients,
//               `E <estimate>`, `Q <value> <converged>` (integrate_small called directly, whatever path type2 took),
//               `V <values[0..nbase+1]>` (compute_base_integrals called directly with the same prefactors)
#include "common.hpp"
#include "libecpint/radial.hpp"
#include "libecpint/mathutil.hpp"
#include "Faddeeva.hpp"
using namespace libecpint;
static std::string bits(double v) { unsigned long long u; memcpy(&u, &v, 8); char b[32]; snprintf(b, sizeof b, "%016llx", u); return b; }
int main() {
	initFactorials();
	RadialIntegral rad; rad.init(3 * LIBECPINT_MAX_L, 1e-15, 256, 1024);
	std::string line;
	while (std::getline(std::cin, line)) {
		auto t = vh::split(line);
		if (t.empty() || t[0] != "prim") continue;
		int nbase = vh::I(t[1]), un = vh::I(t[2]);
		double ua = vh::D(t[3]), a = vh::D(t[4]), A = vh::D(t[5]), b = vh::D(t[6]), B = vh::D(t[7]);
		int N = vh::I(t[8]), l1 = vh::I(t[9]), l2 = vh::I(t[10]);
		int k = N + un + 2;
		double p = ua + a + b, x = a * A, y = b * B, P1 = (x + y) / p, P2 = (y - x) / p, root_p = sqrt(p);
		double d1 = Faddeeva::Dawson(root_p * P1), d2 = Faddeeva::Dawson(root_p * P2);
		// erf argument of estimate_type2(k, l1, l2, ua, a, b, A, B)
		double kA = 2.0 * a * A, kB = 2.0 * b * B, c0 = std::max(k - l1 - l2, 0), c1 = kA + kB, pp = a + b + ua;
		double P = c1 + std::sqrt(c1 * c1 + 8.0 * pp * c0); P /= (4.0 * pp);
		double erfv = std::erf(std::sqrt(pp) * P);
		std::cout << "> radial " << nbase << " " << un << " " << bits(ua) << " " << bits(a) << " " << bits(A) << " " << bits(b) << " " << bits(B)
		          << " " << bits(d1) << " " << bits(d2) << " " << N << " " << l1 << " " << l2 << " " << bits(erfv) << "\n";
		// the real thing: unit-coefficient single-primitive shells and a one-Gaussian ECP of angular momentum 0
		double cA[3] = {0, 0, A}, cB[3] = {0, 0, B}, c0v[3] = {0, 0, 0};
		GaussianShell sA(cA, 0), sB(cB, 0); sA.addPrim(a, 1.0); sB.addPrim(b, 1.0);
		ECP U(c0v); U.addPrimitive(un + 2, 0, ua, 1.0);
		std::vector<Triple> tr = {Triple{N, l1, l2}};
		ThreeIndex<double> radials(N + 1, l1 + 1, l2 + 1); radials.fill(0.0);
		rad.type2(tr, nbase, 0, U, sA, sB, A, B, radials);
		std::cout << "< R " << bits(radials(N, l1, l2)) << "\n";
		std::cout << "< E " << bits(rad.estimate_type2(k, l1, l2, ua, a, b, A, B)) << "\n";
		auto q = rad.integrate_small(k, l1, l2, ua, a, b, A, B);
		std::cout << "< Q " << bits(q.first) << " " << (q.second ? 1 : 0) << "\n";
		{
			double P1_2 = P1 * P1, P2_2 = P2 * P2, oP1 = 1.0 / P1_2, oP2 = std::abs(P2) < 1e-7 ? 0.0 : 1.0 / P2_2, o_root_p = 1.0 / root_p;
			double aAbB = a * A * A + b * B * B, Kab = 1.0 / (16.0 * x * y), X1 = exp(p * P1_2 - aAbB) * Kab, X2 = exp(p * P2_2 - aAbB) * Kab;
			std::vector<double> v(nbase + 2, 0.0);
			rad.compute_base_integrals(2, 3 + nbase, p, o_root_p, P1, P2, P1_2, P2_2, X1, X2, oP1, oP2, v.data());
			std::cout << "< V"; for (double z : v) std::cout << " " << bits(z); std::cout << "\n";
		}
		std::cout << "< end\n";
	}
	return 0;
}
