// C17 correspondence / search driver: element operations on real GaussianShell objects living in a
// pool with explicit lifetimes (placement new), real std::vector<GaussianShell> algorithms, and
// copy/assign round trips of the value classes.  Pointers are *classified by address*, never
// dereferenced unless they designate live storage.
//   `copy <op>...`  same operations and output format as the Lean driver (layer `copy`)
//   `vec <op>...`   push<a>,<l> | pushx<b>,<l> | erase<i> | insert<i>,<a>,<l> | sort | rev | copyvec | assignvec | swapfront | grow | atom<i>,<v> | move<i>,<v>
//                   output `v <k> n=<size> <elem>...` for the vector (and `w ...` for its copy when present)
//   `valueclasses`  output `vc <class> <op> ok|FAIL <what>`
#include "common.hpp"
#include <deque>
#include <algorithm>
#include <new>
using namespace libecpint;

static double extbuf[64][3];
static void reset_ext() { for (int b = 0; b < 64; b++) { extbuf[b][0] = 1000 + b; extbuf[b][1] = 1000 + b + 0.25; extbuf[b][2] = 1000 + b + 0.5; } }

struct Slot {
	alignas(GaussianShell) unsigned char mem[sizeof(GaussianShell)];
	bool live = false;
	GaussianShell *p() { return reinterpret_cast<GaussianShell *>(mem); }
};

static std::string tok(double v) {
	double r = std::round(v);
	if (std::fabs(v - r) < 1e-9 && std::fabs(r) < 1e15) return std::to_string((long long)r);
	return "#" + vh::hx(v);
}
static std::string list(const std::vector<double> &v) {
	if (v.empty()) return "-";
	std::string s; for (size_t i = 0; i < v.size(); i++) s += (i ? "," : "") + tok(v[i]);
	return s;
}

// classify a shell's centre pointer against everything that is alive
template <class Live>
static std::string describe(int id, GaussianShell &s, Live &&liveLocal) {
	std::string ptr, centre;
	const double *c = s.centerVec;
	if (c == s.localCenter) ptr = "own";
	else {
		for (int b = 0; b < 64 && ptr.empty(); b++) if (c == extbuf[b]) ptr = "ext" + std::to_string(b);
		if (ptr.empty()) { int o = liveLocal(c); ptr = o >= 0 ? "foreign" + std::to_string(o) : "dangling"; }
	}
	if (ptr == "dangling") centre = "!";
	else {
		// live storage: safe to read; the three coordinates must still belong together
		if (std::fabs(c[1] - c[0] - 0.25) > 1e-9 || std::fabs(c[2] - c[0] - 0.5) > 1e-9) centre = "#torn";
		else centre = tok(c[0]);
	}
	if (s.local_ptr && ptr != "own" && ptr.rfind("foreign", 0) != 0 && ptr != "dangling") ptr = "bad(" + ptr + ")";
	std::ostringstream o;
	o << id << ":e=" << list(s.exps) << ";c=" << list(s.coeffs) << ";x=" << centre << ";m=" << tok(s.min_exp)
	  << ";l=" << s.l << ";a=" << s.atom_id << ";p=" << ptr;
	return o.str();
}

static std::vector<int> nums(const std::string &s) {
	std::vector<int> v; std::string cur;
	for (char ch : s) { if (ch == ',') { v.push_back(atoi(cur.c_str())); cur.clear(); } else cur += ch; }
	if (!cur.empty()) v.push_back(atoi(cur.c_str()));
	return v;
}
static std::array<double, 3> coord(int a) { return {double(a), a + 0.25, a + 0.5}; }

static void run_copy(const std::vector<std::string> &t) {
	reset_ext();
	std::deque<Slot> pool;
	auto liveLocal = [&](const double *c) -> int {
		for (size_t i = 0; i < pool.size(); i++) if (pool[i].live && c == pool[i].p()->localCenter) return (int)i;
		return -1;
	};
	auto alive = [&](int o) { return o >= 0 && o < (int)pool.size() && pool[o].live; };
	for (size_t k = 1; k < t.size(); k++) {
		char op = t[k][0]; auto a = nums(t[k].substr(1));
		bool ok = true;
		if (op == 'X' && a.size() == 2) { pool.emplace_back(); new (pool.back().mem) GaussianShell(extbuf[a[0]], a[1]); pool.back().live = true; }
		else if (op == 'L' && a.size() == 2) { pool.emplace_back(); new (pool.back().mem) GaussianShell(coord(a[0]), a[1]); pool.back().live = true; }
		else if (op == 'C' && a.size() == 1 && alive(a[0])) { pool.emplace_back(); new (pool.back().mem) GaussianShell(*pool[a[0]].p()); pool.back().live = true; }
		else if (op == 'M' && a.size() == 1 && alive(a[0])) { pool.emplace_back(); new (pool.back().mem) GaussianShell(pool[a[0]].p()->copy()); pool.back().live = true; }
		else if (op == 'A' && a.size() == 2 && alive(a[0]) && alive(a[1])) { *pool[a[0]].p() = *pool[a[1]].p(); }
		else if (op == 'P' && a.size() == 3 && alive(a[0])) pool[a[0]].p()->addPrim(a[1], a[2]);
		else if (op == 'W' && a.size() == 2 && alive(a[0])) { auto c = coord(a[1]); for (int q = 0; q < 3; q++) pool[a[0]].p()->localCenter[q] = c[q]; }
		else if (op == 'T' && a.size() == 2 && alive(a[0])) pool[a[0]].p()->atom_id = a[1];
		else if (op == 'B' && a.size() == 2) { auto c = coord(a[1]); for (int q = 0; q < 3; q++) extbuf[a[0]][q] = c[q]; }
		else if (op == 'D' && a.size() == 1 && alive(a[0])) { pool[a[0]].p()->~GaussianShell(); pool[a[0]].live = false; memset(pool[a[0]].mem, 0xAB, sizeof(GaussianShell)); }
		else ok = false;
		if (!ok) { std::cout << "bad-op\n"; return; }
		std::cout << "c " << (k - 1);
		for (size_t i = 0; i < pool.size(); i++) if (pool[i].live) std::cout << " " << describe((int)i, *pool[i].p(), liveLocal);
		std::cout << "\n";
	}
	for (auto &s : pool) if (s.live) s.p()->~GaussianShell();
}

static void run_vec(const std::vector<std::string> &t) {
	reset_ext();
	std::vector<GaussianShell> v, w;
	bool has_w = false;
	auto dump = [&](const char *tag, size_t k, std::vector<GaussianShell> &x, std::vector<GaussianShell> &other) {
		auto liveLocal = [&](const double *c) -> int {
			for (size_t i = 0; i < x.size(); i++) if (c == x[i].localCenter) return (int)i;
			for (size_t i = 0; i < other.size(); i++) if (c == other[i].localCenter) return 1000 + (int)i;
			return -1;
		};
		std::cout << tag << " " << k << " n=" << x.size();
		for (size_t i = 0; i < x.size(); i++) std::cout << " " << describe((int)i, x[i], liveLocal);
		std::cout << "\n";
	};
	for (size_t k = 1; k < t.size(); k++) {
		const std::string &s = t[k];
		auto arg = [&](const char *name) { return nums(s.substr(strlen(name))); };
		if (s.rfind("pushx", 0) == 0) { auto a = arg("pushx"); GaussianShell g(extbuf[a[0]], a[1]); g.addPrim(a[0] + 1, 2); v.push_back(g); }
		else if (s.rfind("push", 0) == 0) { auto a = arg("push"); GaussianShell g(coord(a[0]), a[1]); g.addPrim(a[0] + 1, 3); g.atom_id = a[0] % 7; v.push_back(g); }
		else if (s.rfind("erase", 0) == 0) { auto a = arg("erase"); if (a[0] < (int)v.size()) v.erase(v.begin() + a[0]); }
		else if (s.rfind("insert", 0) == 0) { auto a = arg("insert"); if (a[0] <= (int)v.size()) { GaussianShell g(coord(a[1]), a[2]); g.addPrim(a[1] + 1, 3); g.atom_id = a[1] % 7; v.insert(v.begin() + a[0], g); } }
		else if (s == "sort") std::sort(v.begin(), v.end(), [](const GaussianShell &x, const GaussianShell &y) { return x.l < y.l || (x.l == y.l && x.min_exp < y.min_exp); });
		else if (s == "rev") std::reverse(v.begin(), v.end());
		else if (s == "swapfront") { if (v.size() >= 2) std::swap(v.front(), v.back()); }
		else if (s == "grow") v.reserve(v.capacity() * 2 + 3);
		else if (s == "copyvec") { w = std::vector<GaussianShell>(v); has_w = true; }
		else if (s == "assignvec") { std::vector<GaussianShell> z(v); w = z; has_w = true; }
		else if (s.rfind("atom", 0) == 0) { auto a = arg("atom"); if (a[0] < (int)v.size()) v[a[0]].atom_id = a[1]; }
		else if (s.rfind("move", 0) == 0) { auto a = arg("move"); if (a[0] < (int)v.size() && v[a[0]].local_ptr) { auto c = coord(a[1]); for (int q = 0; q < 3; q++) v[a[0]].localCenter[q] = c[q]; } }
		else if (s == "dropv") { v.clear(); v.shrink_to_fit(); }
		else { std::cout << "bad-op\n"; return; }
		dump("v", k - 1, v, w);
		if (has_w) dump("w", k - 1, w, v);
	}
}

#define VC(cond, cls, op, what) do { std::cout << "vc " << cls << " " << op << " " << ((cond) ? "ok" : "FAIL") << " " << what << "\n"; } while (0)

template <class T> static bool same_arr(const T &a, const T &b) {
	return a.data == b.data && std::equal(std::begin(a.dims), std::end(a.dims), std::begin(b.dims));
}

static void run_valueclasses() {
	{ // ECP
		double c[3] = {1, 2, 3}; ECP u(c); u.addPrimitive(2, 1, 0.5, 1.5); u.addPrimitive(1, 0, 2.5, -1.0); u.addPrimitive(2, 2, 0.7, 3.0); u.atom_id = 4;
		auto eq = [](const ECP &a, const ECP &b) {
			bool r = a.N == b.N && a.L == b.L && a.atom_id == b.atom_id && a.min_exp == b.min_exp && a.center_ == b.center_ && a.gaussians.size() == b.gaussians.size();
			for (int i = 0; r && i < LIBECPINT_MAX_L + 1; i++) r = a.min_exp_l[i] == b.min_exp_l[i] && a.l_starts[i] == b.l_starts[i];
			r = r && a.l_starts[LIBECPINT_MAX_L + 1] == b.l_starts[LIBECPINT_MAX_L + 1];
			for (size_t i = 0; r && i < a.gaussians.size(); i++) r = a.gaussians[i].n == b.gaussians[i].n && a.gaussians[i].l == b.gaussians[i].l && a.gaussians[i].a == b.gaussians[i].a && a.gaussians[i].d == b.gaussians[i].d;
			return r; };
		ECP v(u); VC(eq(u, v), "ECP", "copy-ctor", "all members");
		ECP w; w = u; VC(eq(u, w), "ECP", "assign", "all members");
		ECP keep(u); v.addPrimitive(2, 3, 9.0, 9.0); v.setPos(7, 7, 7); w.gaussians[0].a = 99; w.atom_id = 0;
		VC(eq(u, keep), "ECP", "independent", "mutating the copies leaves the original");
		GaussianECP g(2, 1, 0.5, 0.25), h(g), k; k = g;
		VC(h.n == g.n && h.l == g.l && h.a == g.a && h.d == g.d && k.n == g.n && k.l == g.l && k.a == g.a && k.d == g.d, "GaussianECP", "copy", "all members");
		ECPBasis b; b.addECP(u, 3); b.core_electrons[5] = 2; ECPBasis b2(b), b3; b3 = b;
		VC(b2.getN() == 1 && b3.getN() == 1 && b2.getMaxL() == b.getMaxL() && b3.getAtom(0) == 3 && b2.getECPCore(5) == 2 && eq(b2.getECP(0), u) && eq(b3.getECP(0), u), "ECPBasis", "copy", "all members");
		b2.getECP(0).setPos(9, 9, 9); VC(eq(b.getECP(0), u), "ECPBasis", "independent", "");
	}
	{ // multi-index arrays
		TwoIndex<double> a(2, 3, 0.0); for (size_t i = 0; i < a.data.size(); i++) a.data[i] = i + 1;
		TwoIndex<double> b(a), c; c = a; VC(same_arr(a, b) && same_arr(a, c), "TwoIndex", "copy", "dims+data");
		b(1, 2) = -5; c.assign(4, 4, 1.0); VC(a(1, 2) == 6 && a.dims[0] == 2, "TwoIndex", "independent", "");
		ThreeIndex<double> a3(2, 3, 4); for (size_t i = 0; i < a3.data.size(); i++) a3.data[i] = i;
		ThreeIndex<double> b3(a3), c3; c3 = a3; VC(same_arr(a3, b3) && same_arr(a3, c3), "ThreeIndex", "copy", "dims+data");
		b3(1, 2, 3) = -1; VC(a3(1, 2, 3) == 23, "ThreeIndex", "independent", "");
		FiveIndex<double> a5(2, 3, 2, 3, 2); for (size_t i = 0; i < a5.data.size(); i++) a5.data[i] = i;
		FiveIndex<double> b5(a5), c5; c5 = a5; VC(same_arr(a5, b5) && same_arr(a5, c5), "FiveIndex", "copy", "dims+data");
		b5(1, 2, 1, 2, 1) = -1; VC(a5(1, 2, 1, 2, 1) == 71, "FiveIndex", "independent", "");
		SevenIndex<double> a7(2, 3, 2, 3, 2, 3, 2); for (size_t i = 0; i < a7.data.size(); i++) a7.data[i] = i;
		SevenIndex<double> b7(a7), c7; c7 = a7;
		bool m = std::equal(a7.mults, a7.mults + 6, b7.mults) && std::equal(a7.mults, a7.mults + 6, c7.mults);
		VC(same_arr(a7, b7) && same_arr(a7, c7) && m && b7(1, 2, 1, 2, 1, 2, 1) == 431 && c7(1, 0, 1, 0, 1, 0, 1) == a7(1, 0, 1, 0, 1, 0, 1), "SevenIndex", "copy", "dims+mults+data");
		b7(1, 2, 1, 2, 1, 2, 1) = -1; VC(a7(1, 2, 1, 2, 1, 2, 1) == 431, "SevenIndex", "independent", "");
	}
	{ // quadrature grid
		GCQuadrature q; q.initGrid(31, ONEPOINT); GCQuadrature r(q), s; s = q;
		VC(r.maxN == q.maxN && r.M == q.M && r.t == q.t && r.x == q.x && r.w == q.w && s.maxN == q.maxN && s.M == q.M && s.t == q.t && s.x == q.x && s.w == q.w, "GCQuadrature", "copy", "all members");
		std::vector<double> x0 = q.x, w0 = q.w; r.transformZeroInf(); s.transformRMinMax(2.0, 1.0);
		VC(q.x == x0 && q.w == w0, "GCQuadrature", "independent", "transforming the copies leaves the original grid");
	}
	{ // integrator: copy, then move the copy's atoms and recompute - the original must not notice
		vh::System sys;
		for (const char *l : {"atoms 2", "geom 0 0 0 0 0.5 0.3 2.0", "geom 1 0.3 0.1 -0.2 1.5 -0.3 1.0", "shell 0 1 1 1.3 0.9", "shell 1 0 2 0.8 0.7 2.5 0.4", "ecp 1 2 2 0 1.1 4.0 2 1 0.7 -1.0"}) sys.parse_line(vh::split(l));
		ECPIntegrator a; sys.make(a, 0, 0, 1); a.compute_integrals(); a.compute_first_derivs();
		std::vector<double> i0 = a.integrals.data, d0 = a.first_derivs[2].data;
		ECPIntegrator b(a), c; c = a;
		bool atoms = true; for (size_t i = 0; i < a.shells.size(); i++) atoms = atoms && b.shells[i].atom_id == a.shells[i].atom_id && c.shells[i].atom_id == a.shells[i].atom_id;
		bool own = true; for (auto *x : {&a, &b, &c}) for (auto &s : x->shells) own = own && s.centerVec == s.localCenter;
		VC(b.integrals.data == i0 && c.first_derivs.size() == a.first_derivs.size() && b.natoms == a.natoms && b.ncart == a.ncart && atoms, "ECPIntegrator", "copy", "results, counts, atom ids");
		VC(own, "ECPIntegrator", "own-storage", "every shell of every copy points at its own centre");
		auto sc = sys.shell_coords(1), ec = sys.ecp_coords(1);
		b.update_gaussian_basis_coords(sys.shells.size(), sc.data()); b.update_ecp_basis_coords(sys.ecps.size(), ec.data()); b.compute_integrals(); b.compute_first_derivs();
		c.update_gaussian_basis_coords(sys.shells.size(), sc.data()); c.update_ecp_basis_coords(sys.ecps.size(), ec.data());
		a.compute_integrals(); a.compute_first_derivs();
		VC(a.integrals.data == i0 && a.first_derivs[2].data == d0 && b.integrals.data != i0, "ECPIntegrator", "independent", "moving the copies' atoms leaves the original's results");
		ECPIntegrator f; sys.make(f, 1, 1, 1); f.compute_integrals();
		VC(f.integrals.data == b.integrals.data, "ECPIntegrator", "copy-usable", "a moved copy computes what a fresh integrator computes there");
	}
}

int main() {
	std::string line;
	while (std::getline(std::cin, line)) {
		auto t = vh::split(line);
		if (t.empty() || t[0][0] == '#') continue;
		if (t[0] == "copy") run_copy(t);
		else if (t[0] == "vec") run_vec(t);
		else if (t[0] == "valueclasses") run_valueclasses();
		else std::cout << "bad-line\n";
		std::cout << "end\n";
	}
	return 0;
}
