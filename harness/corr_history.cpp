// C05 correspondence / search driver: runs call histories on a real ECPIntegrator and prints,
// after every operation, the observable state of its three result containers as projections.
//   input : system lines (common.hpp), then
//           `deriv <d>`
//           `hist <id> <op>...`    ops: S<g> E<g> I D1 D2   (new integrator at geometry (0,0) per line)
//           `fresh <s> <e>`        results of a freshly constructed integrator at those coordinates
//   output: `h <id> <k> ncart=<n> ints=<rows>x<cols>:<proj>:<maxabs> d1=<len>:<proj>,... d2=<len>:<proj>,... bad=<count>`
//           `f <s> <e> ...same fields...`
#include "common.hpp"
using namespace libecpint;

static int deriv = 2;

static std::string obs(ECPIntegrator &f) {
	std::ostringstream o;
	int bad = 0;
	o << "ncart=" << f.ncart << " ints=" << f.integrals.dims[0] << "x" << f.integrals.dims[1] << ":"
	  << vh::hx(vh::project(f.integrals.data)) << ":" << vh::hx(vh::maxabs(f.integrals.data));
	auto g1 = f.get_first_derivs();
	o << " d1=" << g1.size() << ":";
	for (size_t i = 0; i < g1.size(); i++) {
		if ((int)g1[i]->size() != f.ncart * f.ncart) bad++;
		o << (i ? "," : "") << vh::hx(vh::project(*g1[i])) << "/" << vh::hx(vh::maxabs(*g1[i]));
	}
	auto g2 = f.get_second_derivs();
	o << " d2=" << g2.size() << ":";
	for (size_t i = 0; i < g2.size(); i++) {
		if ((int)g2[i]->size() != f.ncart * f.ncart) bad++;
		o << (i ? "," : "") << vh::hx(vh::project(*g2[i])) << "/" << vh::hx(vh::maxabs(*g2[i]));
	}
	o << " bad=" << bad;
	return o.str();
}

int main() {
	vh::System sys;
	std::string line;
	while (std::getline(std::cin, line)) {
		auto t = vh::split(line);
		if (t.empty() || t[0][0] == '#') continue;
		if (sys.parse_line(t)) continue;
		if (t[0] == "deriv") { deriv = vh::I(t[1]); continue; }
		if (t[0] == "fresh") {
			int s = vh::I(t[1]), e = vh::I(t[2]);
			ECPIntegrator f; sys.make(f, s, e, deriv);
			f.compute_integrals();
			if (deriv > 0) f.compute_first_derivs();
			if (deriv > 1) f.compute_second_derivs();
			std::cout << "f " << s << " " << e << " natoms=" << f.natoms << " " << obs(f) << "\n";
			continue;
		}
		if (t[0] == "hist") {
			ECPIntegrator f; sys.make(f, 0, 0, deriv);
			for (size_t k = 2; k < t.size(); k++) {
				const std::string &op = t[k];
				if (op == "I") f.compute_integrals();
				else if (op == "D1") f.compute_first_derivs();
				else if (op == "D2") f.compute_second_derivs();
				else if (op[0] == 'S') { auto c = sys.shell_coords(vh::I(op.substr(1))); f.update_gaussian_basis_coords(sys.shells.size(), c.data()); }
				else if (op[0] == 'E') { auto c = sys.ecp_coords(vh::I(op.substr(1))); f.update_ecp_basis_coords(sys.ecps.size(), c.data()); }
				else { std::cout << "bad-op\n"; break; }
				std::cout << "h " << t[1] << " " << (k - 2) << " natoms=" << f.natoms << " " << obs(f) << "\n";
			}
			continue;
		}
		std::cout << "bad-line " << line << "\n";
	}
	return 0;
}
